(* ResampleConsistency.v -- after resampling (virtual_edges.generate_mesh without merges) consecutive vertices of every cell cycle are
   joined by one of the rebuilt mesh edges (C09, clause 5, for the resampling path; composes C08's decomposition with C11's selection). *)
From Coq Require Import ZArith List Bool Lia.
From Forsys Require Import Model.PyList Model.Interfaces Model.Resample Proofs.InterfacesProofs Proofs.ShiftProofs Proofs.ResampleProofs.
Import ListNotations.
Open Scope Z_scope.

(* ------------------------------------------------------------------ filtering pieces and their closures *)
Section Keep.
  Variables junc keep : Z -> bool.
  Hypothesis junctions_kept : forall v, junc v = true -> keep v = true.

  Lemma piece_head p : piece_ok junc p = true -> p <> [] /\ junc (headZ p) = true.
  Proof. destruct p as [|x r]; [discriminate|]. cbn [piece_ok headZ hd]. intros H. apply andb_true_iff in H. split; [discriminate|tauto]. Qed.
  Lemma filter_piece_head p : piece_ok junc p = true -> headZ (filter keep p) = headZ p /\ filter keep p <> [].
  Proof. destruct p as [|x r]; [discriminate|]. cbn [piece_ok]. intros H. apply andb_true_iff in H. destruct H as [Jx _].
    cbn [filter]. rewrite (junctions_kept x Jx). split; [reflexivity|discriminate]. Qed.

  Lemma in_rot1 {A} (x : A) l : In x (rot1 l) -> In x l.
  Proof. destruct l as [|y t]; [intros []|]. cbn [rot1]. intros H. apply in_app_or in H. destruct H as [H | [-> | []]]; [right; exact H|left; reflexivity]. Qed.

  Lemma close_with_filter P hs : (forall h, In h hs -> keep h = true) ->
    close_with (map (filter keep) P) hs = map (filter keep) (close_with P hs).
  Proof. unfold close_with. revert hs; induction P as [|p P IH]; intros hs Hh; [reflexivity|]. destruct hs as [|h hs]; [reflexivity|].
    cbn [map combine fst snd]. rewrite filter_app. cbn [filter]. rewrite (Hh h (or_introl eq_refl)). f_equal. apply IH. intros k Hk. apply Hh. right. exact Hk. Qed.

  Lemma close_pieces_filter P : forallb (piece_ok junc) P = true -> close_pieces (map (filter keep) P) = map (filter keep) (close_pieces P).
  Proof. intros HP. change (close_pieces (map (filter keep) P)) with (close_with (map (filter keep) P) (rot1 (map headZ (map (filter keep) P)))).
    change (close_pieces P) with (close_with P (rot1 (map headZ P))).
    assert (E : map headZ (map (filter keep) P) = map headZ P).
    { rewrite map_map. apply map_ext_in. intros p Hp. rewrite forallb_forall in HP. apply filter_piece_head. apply HP. exact Hp. }
    rewrite E. apply close_with_filter. intros h Hh. apply in_rot1 in Hh. apply in_map_iff in Hh. destruct Hh as [p [<- Hp]].
    rewrite forallb_forall in HP. apply junctions_kept. apply piece_head. apply HP. exact Hp. Qed.

  Lemma filter_concat_map (P : list (list Z)) : filter keep (concat P) = concat (map (filter keep) P).
  Proof. induction P as [|p P IH]; [reflexivity|]. cbn [concat map]. rewrite filter_app, IH. reflexivity. Qed.

  (* consecutive vertices of the filtered cycle follow each other in the filtered version of one of the cell's interfaces *)
  Theorem filtered_cell_edge_in_interface ids a b : existsb junc ids = true -> cyc_adjacent a b (filter keep ids) ->
    exists e, In e (cell_interfaces junc ids) /\ adjacent a b (filter keep e).
  Proof. intros Hex Hab. destruct (rotated_is_rotation junc ids) as [l1 [l2 [H1 H2]]].
    destruct (rotated_starts_with_junction junc ids Hex) as [x [t [Hr Jx]]].
    rewrite cell_interfaces_unfold. set (P := tl (get_partition junc (rotated_ids junc ids))).
    assert (HP : forallb (piece_ok junc) P = true) by apply partition_spec.
    assert (HPc : concat P = rotated_ids junc ids) by (unfold P; rewrite Hr; now apply partition_tl_concat).
    assert (HPne : P <> []) by (intro E; rewrite E in HPc; rewrite Hr in HPc; discriminate).
    assert (HP' : Forall (fun p => p <> []) (map (filter keep) P)).
    { apply Forall_forall. intros q Hq. apply in_map_iff in Hq. destruct Hq as [p [<- Hp]]. rewrite forallb_forall in HP. apply filter_piece_head. apply HP. exact Hp. }
    destruct (close_pieces_covers a b (map (filter keep) P) HP') as [e' [He' Hadj]].
    - destruct P; [congruence|discriminate].
    - rewrite <- filter_concat_map, HPc, H2. rewrite filter_app. apply cyc_adjacent_rot. rewrite <- filter_app, <- H1. exact Hab.
    - rewrite (close_pieces_filter P HP) in He'. apply in_map_iff in He'. destruct He' as [e [<- He]]. exists e. split; [exact He|exact Hadj]. Qed.
End Keep.

(* ------------------------------------------------------------------ from adjacency in a resampled interface to a rebuilt mesh edge *)
Lemma adjacent_consecutive a b l : adjacent a b l -> In (a, b) (consecutive_pairs l).
Proof. intros [l1 [l2 ->]]. induction l1 as [|x l1 IH]; [left; reflexivity|].
  change ((x :: l1) ++ a :: b :: l2) with (x :: (l1 ++ a :: b :: l2)). destruct (l1 ++ a :: b :: l2) as [|y r] eqn:E; [destruct l1; discriminate|].
  cbn [consecutive_pairs]. right. exact IH. Qed.
Lemma number_from_complete {A} (l : list A) i x : In x l -> exists k, In (k, x) (number_from i l).
Proof. revert i; induction l as [|y t IH]; intros i; [intros []|]. intros [-> | H]; [exists i; left; reflexivity|].
  destruct (IH (i + 1) H) as [k Hk]. exists k. right. exact Hk. Qed.
Definition joined (es : list (Z * (Z * Z))) (a b : Z) : Prop := exists i, In (i, (a, b)) es \/ In (i, (b, a)) es.
Lemma filter_rev {A} (f : A -> bool) l : filter f (rev l) = rev (filter f l).
Proof. induction l as [|x t IH]; [reflexivity|]. cbn [rev filter]. rewrite filter_app, IH. cbn [filter]. destruct (f x); [reflexivity|rewrite app_nil_r; reflexivity]. Qed.

(* ------------------------------------------------------------------ the resampled mesh *)
Section Mesh.
  Variable idx : Z -> Z -> Z -> Z.
  Variable junc : Z -> bool.
  Variable ne : Z.
  Variable st : vstate.
  Let bedges := create_edges_new junc (cs st).
  Let narr := n_edge_array idx ne bedges.
  Let keep := fun v => memZ v (concat narr).
  Let st' := resample_core st narr.

  (* what a consistent mesh and an admissible index give (see [private_gives_selection] below): every junction is named by a
     resampled interface, and the vertices of an interface that are named by any resampled interface are exactly its own selection *)
  Hypothesis junctions_kept : forall v, junc v = true -> keep v = true.
  Hypothesis selection_is_filter : forall f, In f bedges -> filter keep f = select_iface idx ne f.

  Lemma resampled_cycle_origin cid cyc : In (cid, cyc) (cs st') -> exists old, In (cid, old) (cs st) /\ cyc = filter keep old.
  Proof. unfold st', resample_core. cbn [cs]. rewrite filter_In, in_map_iff. intros [[[c old] [Heq Hin]] _]. cbn [fst snd] in Heq.
    inversion Heq; subst. exists old. split; [exact Hin|reflexivity]. Qed.

  (* consecutive vertices (cyclically) of every resampled cell cycle are joined by a rebuilt mesh edge, in one of the two directions *)
  Theorem resampled_cycle_joined cid cyc a b :
    In (cid, cyc) (cs st') -> (forall old, In (cid, old) (cs st) -> existsb junc old = true) ->
    cyc_adjacent a b cyc -> joined (es st') a b.
  Proof. intros Hin Hj Hab. destruct (resampled_cycle_origin cid cyc Hin) as [old [Hold ->]]. specialize (Hj old Hold).
    destruct (filtered_cell_edge_in_interface junc keep junctions_kept old a b Hj Hab) as [e [He Hadj]].
    destruct (dedup_keeps_all (concat (map (fun c => cell_interfaces junc (snd c)) (cs st))) e) as [f [Hf Hs]].
    { apply in_concat. exists (cell_interfaces junc old). split; [|exact He]. apply in_map_iff. exists (cid, old). split; [reflexivity|exact Hold]. }
    fold (create_edges_new junc (cs st)) in Hf. fold bedges in Hf.
    assert (Hsel : In (select_iface idx ne f) narr) by (apply in_map; exact Hf).
    assert (K : forall u v, adjacent u v (select_iface idx ne f) -> exists i, In (i, (u, v)) (es st')).
    { intros u v Huv. apply adjacent_consecutive in Huv. unfold st', resample_core. cbn [es]. apply number_from_complete.
      apply in_concat. exists (consecutive_pairs (select_iface idx ne f)). split; [apply in_map; exact Hsel|exact Huv]. }
    destruct Hs as [-> | ->].
    - rewrite (selection_is_filter f Hf) in Hadj. destruct (K a b Hadj) as [i Hi]. exists i. left. exact Hi.
    - rewrite filter_rev, (selection_is_filter f Hf) in Hadj. apply adjacent_rev in Hadj. rewrite rev_involutive in Hadj.
      destruct (K b a Hadj) as [i Hi]. exists i. right. exact Hi. Qed.
End Mesh.

(* ------------------------------------------------------------------ executable hypotheses, executable conclusion *)
Lemma listZ_eq_true a b : listZ_eq a b = true -> a = b.
Proof. revert b; induction a as [|x s IH]; intros [|y t]; simpl; try discriminate; [reflexivity|]. intros H. apply andb_true_iff in H. destruct H as [H1 H2].
  apply Z.eqb_eq in H1. subst. f_equal. apply IH. exact H2. Qed.
Lemma consecutive_adjacent a b l : In (a, b) (consecutive_pairs l) -> adjacent a b l.
Proof. induction l as [|x t IH]; [intros []|]. destruct t as [|y t']; [intros []|]. cbn [consecutive_pairs]. intros [H | H].
  - inversion H; subst. exists [], t'. reflexivity.
  - apply adjacent_cons. apply IH. exact H. Qed.
Lemma cyc_pairs_adjacent a b l : In (a, b) (cyc_pairs l) -> cyc_adjacent a b l.
Proof. unfold cyc_pairs, cyc_adjacent. apply consecutive_adjacent. Qed.
Lemma joined_has_edge es a b : joined es a b -> has_edge es (a, b) = true.
Proof. intros [i [H | H]]; unfold has_edge; apply existsb_exists.
  - exists (i, (a, b)). split; [exact H|]. cbn [fst snd]. rewrite !Z.eqb_refl. reflexivity.
  - exists (i, (b, a)). split; [exact H|]. cbn [fst snd]. rewrite !Z.eqb_refl. cbn [andb]. apply orb_true_r. Qed.

Theorem resample_hyps_cycles_joined idx jl ne st : resample_hyps idx jl ne st = true ->
  cycles_joined (resample_core st (n_edge_array idx ne (create_edges_new (fun v => memZ v jl) (cs st)))) = true.
Proof. unfold resample_hyps. intros H. apply andb_true_iff in H. destruct H as [H H3]. apply andb_true_iff in H. destruct H as [H1 H2].
  rewrite forallb_forall in H1, H2, H3. unfold cycles_joined. apply forallb_forall. intros [cid cyc] Hc. apply forallb_forall. intros [a b] Hab.
  apply joined_has_edge. cbn [snd] in Hab. apply cyc_pairs_adjacent in Hab.
  apply (resampled_cycle_joined idx (fun v => memZ v jl) ne st) with (cid := cid) (cyc := cyc).
  - intros v Hv. apply H1. apply memZ_spec. exact Hv.
  - intros f Hf. apply listZ_eq_true. apply H2. exact Hf.
  - exact Hc.
  - intros old Hold. apply (H3 (cid, old)). exact Hold.
  - exact Hab. Qed.
