From Coq Require Import ZArith QArith List Bool Lia.
From Forsys Require Import Model.PyList Model.Tracking.
Import ListNotations.
Open Scope Z_scope.

Definition targets (m : list (Z * option Z)) : list Z :=
  flat_map (fun kv => match snd kv with Some t => [t] | None => [] end) m.

Lemma optZ_eq_spec a b : optZ_eq a b = true <-> a = b.
Proof. destruct a, b; simpl; try (split; [discriminate|discriminate]); [|tauto].
  rewrite Z.eqb_eq. split; [intros ->; reflexivity|intros H; inversion H; reflexivity]. Qed.

Lemma taken_spec m k : taken m k = true <-> In k (targets m).
Proof. unfold taken, targets. rewrite existsb_exists, in_flat_map. split.
  - intros [kv [Hin He]]. apply optZ_eq_spec in He. exists kv. split; [exact Hin|]. rewrite He. left. reflexivity.
  - intros [kv [Hin Hk]]. exists kv. split; [exact Hin|]. destruct (snd kv) as [t|]; [|destruct Hk].
    destruct Hk as [->|[]]. apply optZ_eq_spec. reflexivity. Qed.

(* ---------------------------------------------------------------- candidates are free pool vertices *)
Definition free_in (m : list (Z * option Z)) (pool : list vtx) (c : vtx) : Prop := In c pool /\ taken m (vid c) = false.

Lemma sweep_free m v0 pool r c : In c (sweep m v0 pool r) -> free_in m pool c.
Proof. unfold sweep. rewrite filter_In, andb_true_iff, negb_true_iff. intros [H [H1 _]]. split; assumption. Qed.

Lemma first_loop_free m v0 pool mc spreads : forall acc r acc' r' rest,
  Forall (free_in m pool) acc -> first_loop m v0 pool mc spreads acc r = (acc', r', rest) -> Forall (free_in m pool) acc'.
Proof. induction spreads as [|s t IH]; intros acc r acc' r' rest Hacc H; simpl in H.
  - inversion H; subst. exact Hacc.
  - destruct (Nat.leb (length acc) 1).
    + eapply IH; [|exact H]. apply Forall_app. split; [exact Hacc|]. apply Forall_forall. intros c Hc. eapply sweep_free; eauto.
    + inversion H; subst. exact Hacc. Qed.

Lemma second_loop_free m v0 pool r spreads : forall acc,
  Forall (free_in m pool) acc -> Forall (free_in m pool) (second_loop m v0 pool r spreads acc).
Proof. induction spreads as [|s t IH]; intros acc Hacc; simpl; [exact Hacc|].
  destruct (Nat.leb (length acc) 1); [|exact Hacc]. apply IH. apply Forall_app. split; [exact Hacc|].
  apply Forall_forall. intros c Hc. apply sweep_free in Hc. destruct Hc as [H1 H2]. split; [apply in_rev; exact H1|exact H2]. Qed.

Lemma argmin_in v0 cands : forall best c, argmin v0 cands best = Some c -> best = Some c \/ In c cands.
Proof. induction cands as [|x t IH]; intros best c H; simpl in H; [left; exact H|].
  destruct best as [b|].
  - destruct (Qle_bool (sqd v0 b) (sqd v0 x)).
    + destruct (IH _ _ H) as [E|E]; [left; exact E|right; right; exact E].
    + destruct (IH _ _ H) as [E|E]; [inversion E; subst; right; left; reflexivity|right; right; exact E].
  - destruct (IH _ _ H) as [E|E]; [inversion E; subst; right; left; reflexivity|right; right; exact E]. Qed.

Theorem find_best_free spreads m v0 pool mc t : find_best spreads m v0 pool mc = Some t ->
  exists c, In c pool /\ vid c = t /\ ~ In t (targets m).
Proof. unfold find_best. destruct (first_loop m v0 pool mc spreads [] 0%Q) as [[obverse radius] rest] eqn:E.
  intros H. destruct (argmin v0 (second_loop m v0 pool radius rest [] ++ obverse) None) as [c|] eqn:A; [|discriminate].
  simpl in H. inversion H; subst. apply argmin_in in A. destruct A as [A|A]; [discriminate|].
  assert (Hf : free_in m pool c).
  { apply in_app_or in A. destruct A as [A|A].
    - pose proof (second_loop_free m v0 pool radius rest [] (Forall_nil _)) as F. rewrite Forall_forall in F. apply F, A.
    - pose proof (first_loop_free m v0 pool mc spreads [] 0%Q obverse radius rest (Forall_nil _) E) as F. rewrite Forall_forall in F. apply F, A. }
  destruct Hf as [H1 H2]. exists c. split; [exact H1|]. split; [reflexivity|]. intros Hin. apply taken_spec in Hin. congruence. Qed.

(* ---------------------------------------------------------------- the fold *)
Lemma targets_app a b : targets (a ++ b) = targets a ++ targets b.
Proof. unfold targets. apply flat_map_app. Qed.

Lemma create_mapping_spec spreads pool1 mc pool0 : forall guess,
  NoDup (targets guess) ->
  let m := create_mapping spreads guess pool0 pool1 mc in
  NoDup (targets m) /\ (exists rest, m = guess ++ rest) /\
  (forall t, In t (targets m) -> In t (targets guess) \/ exists c, In c pool1 /\ vid c = t) /\
  (forall v0, In v0 pool0 -> has_keyo m (vid v0) = true).
Proof. induction pool0 as [|v0 p IH]; intros guess Hnd; simpl.
  - split; [exact Hnd|]. split; [exists []; rewrite app_nil_r; reflexivity|]. split; [intros t Ht; left; exact Ht|intros v [] ].
  - unfold create_mapping in *. simpl.
    destruct (has_keyo guess (vid v0)) eqn:K.
    + destruct (IH guess Hnd) as [H1 [H2 [H3 H4]]]. split; [exact H1|]. split; [exact H2|]. split; [exact H3|].
      intros v [<-|Hv]; [|apply H4; exact Hv]. destruct H2 as [rest ->]. unfold has_keyo in *. rewrite existsb_app, K. reflexivity.
    + set (g' := guess ++ [(vid v0, find_best spreads guess v0 pool1 mc)]).
      assert (Hnd' : NoDup (targets g')).
      { unfold g'. rewrite targets_app. unfold targets at 2. simpl. rewrite app_nil_r.
        destruct (find_best spreads guess v0 pool1 mc) as [t|] eqn:F; [|rewrite app_nil_r; exact Hnd].
        destruct (find_best_free _ _ _ _ _ _ F) as [c [_ [_ Hfree]]].
        apply NoDup_rev in Hnd. rewrite <- (rev_involutive (targets guess ++ [t])). apply NoDup_rev. rewrite rev_app_distr. simpl.
        constructor; [rewrite <- in_rev; exact Hfree|exact Hnd]. }
      destruct (IH g' Hnd') as [H1 [H2 [H3 H4]]]. split; [exact H1|]. split.
      * destruct H2 as [rest ->]. unfold g'. rewrite <- app_assoc. eexists. reflexivity.
      * split.
        -- intros t Ht. destruct (H3 t Ht) as [Hg|Hp]; [|right; exact Hp]. unfold g' in Hg. rewrite targets_app in Hg.
           apply in_app_or in Hg. destruct Hg as [Hg|Hg]; [left; exact Hg|]. unfold targets in Hg. simpl in Hg. rewrite app_nil_r in Hg.
           destruct (find_best spreads guess v0 pool1 mc) as [t'|] eqn:F; [|destruct Hg]. destruct Hg as [<-|[]].
           destruct (find_best_free _ _ _ _ _ _ F) as [c [Hc [Hv _]]]. right. exists c. split; assumption.
        -- intros v [<-|Hv]; [|apply H4; exact Hv]. destruct H2 as [rest ->]. unfold g', has_keyo. rewrite !existsb_app. simpl.
           rewrite Z.eqb_refl. rewrite orb_true_r. reflexivity. Qed.

(* no two vertices are sent to the same target (given an injective initial guess) *)
Theorem mapping_injective spreads guess pool0 pool1 mc : NoDup (targets guess) ->
  NoDup (targets (create_mapping spreads guess pool0 pool1 mc)).
Proof. intros H. apply (create_mapping_spec spreads pool1 mc pool0 guess H). Qed.
(* user pairings are honoured: the guess is a prefix of the result, and keys are never re-assigned *)
Theorem guess_honoured spreads guess pool0 pool1 mc : NoDup (targets guess) ->
  exists rest, create_mapping spreads guess pool0 pool1 mc = guess ++ rest.
Proof. intros H. apply (create_mapping_spec spreads pool1 mc pool0 guess H). Qed.
(* targets are interface end points of the next frame (or user supplied) *)
Theorem targets_are_endpoints spreads guess pool0 pool1 mc : NoDup (targets guess) ->
  forall t, In t (targets (create_mapping spreads guess pool0 pool1 mc)) -> In t (targets guess) \/ exists c, In c pool1 /\ vid c = t.
Proof. intros H. apply (create_mapping_spec spreads pool1 mc pool0 guess H). Qed.
Theorem every_endpoint_is_mapped spreads guess pool0 pool1 mc : NoDup (targets guess) ->
  forall v0, In v0 pool0 -> has_keyo (create_mapping spreads guess pool0 pool1 mc) (vid v0) = true.
Proof. intros H. apply (create_mapping_spec spreads pool1 mc pool0 guess H). Qed.

(* ---------------------------------------------------------------- forward then backward *)
Lemma assoc_o_first m k v : NoDup (map fst m) -> In (k, v) m -> assoc_o m k = Found v.
Proof. induction m as [|[k' v'] t IH]; intros Hnd Hin; [destruct Hin|]. simpl in *. inversion Hnd; subst.
  destruct Hin as [E|Hin]; [inversion E; subst; rewrite Z.eqb_refl; reflexivity|].
  destruct (Z.eqb_spec k' k) as [->|Hne]; [exfalso; apply H1; apply in_map_iff; exists (k, v); auto|]. apply IH; assumption. Qed.

Lemma inv_lookup_unique m : forall acc k t, NoDup (targets m) -> In (k, Some t) m -> NoDup (map fst m) -> inv_lookup m t acc = Found (Some k).
Proof. induction m as [|[k' v'] rest IH]; intros acc k t Hnd Hin Hk; [destruct Hin|]. simpl.
  destruct Hin as [E|Hin].
  - inversion E; subst. replace (optZ_eq (Some t) (Some t)) with true by (symmetry; apply optZ_eq_spec; reflexivity).
    (* no later entry maps to t *)
    assert (Hno : forall acc', (forall kk, In (kk, Some t) rest -> False) -> inv_lookup rest t acc' = acc').
    { clear. induction rest as [|[a b] r IH]; intros acc' Hn; [reflexivity|]. simpl.
      destruct (optZ_eq b (Some t)) eqn:E; [apply optZ_eq_spec in E; subst; exfalso; apply (Hn a); left; reflexivity|].
      apply IH. intros kk Hkk. apply (Hn kk). right. exact Hkk. }
    apply Hno. intros kk Hkk. unfold targets in Hnd. simpl in Hnd. inversion Hnd; subst. apply H1.
    apply in_flat_map. exists (kk, Some t). split; [exact Hkk|left; reflexivity].
  - simpl in Hk. inversion Hk; subst. apply IH; try assumption.
    unfold targets in *. simpl in Hnd. destruct v'; simpl in Hnd; [inversion Hnd; assumption|exact Hnd]. Qed.

Theorem forward_backward_one_step m k t : NoDup (map fst m) -> NoDup (targets m) -> In (k, Some t) m ->
  follow_forward [Some m] (Some k) = Found (Some t) /\ follow_backward [Some m] (Some t) = Found (Some k).
Proof. intros Hk Ht Hin. simpl. rewrite (assoc_o_first m k (Some t) Hk Hin).
  rewrite (inv_lookup_unique m KeyError k t Ht Hin Hk). split; reflexivity. Qed.

(* ---------------------------------------------------------------- finite differences *)
Theorem velocity_forward frames maps p t ti vs0 x0 y0 tf vs1 q x1 y1 :
  nth_error frames t = Some (ti, vs0) -> assoc vs0 p = Some (x0, y0) -> t <> (length frames - 1)%nat ->
  nth_error frames (S t) = Some (tf, vs1) -> get_point_id_by_map maps p t (S t) = Found (Some q) -> assoc vs1 q = Some (x1, y1) ->
  calculate_velocity frames maps p t = Some (((x1 - x0) / (tf - ti))%Q, ((y1 - y0) / (tf - ti))%Q).
Proof. intros H0 Hp Ht H1 Hm Hq. unfold calculate_velocity. unfold vtx in *. rewrite H0, Hp.
  replace (Nat.eqb t (length frames - 1)) with false by (symmetry; apply Nat.eqb_neq; exact Ht).
  rewrite H1, Hm, Hq. reflexivity. Qed.

Theorem velocity_backward_last frames maps p t ti vs0 x0 y0 tf vs1 q x1 y1 :
  nth_error frames t = Some (ti, vs0) -> assoc vs0 p = Some (x0, y0) -> t = (length frames - 1)%nat ->
  nth_error frames (t - 1) = Some (tf, vs1) -> get_point_id_by_map maps p t (t - 1) = Found (Some q) -> assoc vs1 q = Some (x1, y1) ->
  calculate_velocity frames maps p t = Some (((x1 - x0) / (tf - ti))%Q, ((y1 - y0) / (tf - ti))%Q).
Proof. intros H0 Hp Ht H1 Hm Hq. unfold calculate_velocity. unfold vtx in *. rewrite H0, Hp.
  replace (Nat.eqb t (length frames - 1)) with true by (symmetry; apply Nat.eqb_eq; exact Ht).
  rewrite H1, Hm, Hq. reflexivity. Qed.

(* a vertex with no tracked partner gets velocity zero *)
Theorem velocity_no_partner frames maps p t ti vs0 x0 y0 tf vs1 :
  nth_error frames t = Some (ti, vs0) -> assoc vs0 p = Some (x0, y0) ->
  let tt1 := if Nat.eqb t (length frames - 1) then (t - 1)%nat else S t in
  nth_error frames tt1 = Some (tf, vs1) ->
  (get_point_id_by_map maps p t tt1 = KeyError \/ get_point_id_by_map maps p t tt1 = Found None \/
   exists q, get_point_id_by_map maps p t tt1 = Found (Some q) /\ assoc vs1 q = None) ->
  exists vx vy, calculate_velocity frames maps p t = Some (vx, vy) /\ (vx == 0)%Q /\ (vy == 0)%Q.
Proof. intros H0 Hp tt1 H1 Hm. unfold calculate_velocity. unfold vtx in *. rewrite H0, Hp. fold tt1. rewrite H1.
  assert (Hz : forall d : Q, ((x0 - x0) / d == 0)%Q /\ ((y0 - y0) / d == 0)%Q).
  { intros d. split; unfold Qdiv; [setoid_replace (x0 - x0)%Q with 0%Q by ring|setoid_replace (y0 - y0)%Q with 0%Q by ring]; ring. }
  destruct Hm as [Hm|[Hm|[q [Hm Hq]]]]; rewrite Hm; try rewrite Hq; eexists; eexists; (split; [reflexivity|apply Hz]). Qed.

(* ------------------------------------------------------------------ unit mobility (C03): a junction that moved by (elapsed time) x F
   has velocity F, whatever the elapsed time (also negative: the last frame looks back) and whatever the two frames call the vertex *)
Lemma unit_mobility_component (x0 f ti tf : Q) : ~ (tf - ti == 0)%Q -> ((x0 + (tf - ti) * f - x0) / (tf - ti) == f)%Q.
Proof. intros H. field. exact H. Qed.
Theorem unit_mobility_velocity_forward frames maps p t ti vs0 x0 y0 tf vs1 q fx fy :
  nth_error frames t = Some (ti, vs0) -> assoc vs0 p = Some (x0, y0) -> t <> (length frames - 1)%nat ->
  nth_error frames (S t) = Some (tf, vs1) -> get_point_id_by_map maps p t (S t) = Found (Some q) ->
  assoc vs1 q = Some ((x0 + (tf - ti) * fx)%Q, (y0 + (tf - ti) * fy)%Q) -> ~ (tf - ti == 0)%Q ->
  exists vx vy, calculate_velocity frames maps p t = Some (vx, vy) /\ (vx == fx)%Q /\ (vy == fy)%Q.
Proof. intros H1 H2 H3 H4 H5 H6 Hdt. eexists. eexists. split; [eapply velocity_forward; eassumption|].
  split; apply unit_mobility_component; exact Hdt. Qed.
Theorem unit_mobility_velocity_backward_last frames maps p t ti vs0 x0 y0 tf vs1 q fx fy :
  nth_error frames t = Some (ti, vs0) -> assoc vs0 p = Some (x0, y0) -> t = (length frames - 1)%nat ->
  nth_error frames (t - 1) = Some (tf, vs1) -> get_point_id_by_map maps p t (t - 1) = Found (Some q) ->
  assoc vs1 q = Some ((x0 + (tf - ti) * fx)%Q, (y0 + (tf - ti) * fy)%Q) -> ~ (tf - ti == 0)%Q ->
  exists vx vy, calculate_velocity frames maps p t = Some (vx, vy) /\ (vx == fx)%Q /\ (vy == fy)%Q.
Proof. intros H1 H2 H3 H4 H5 H6 Hdt. eexists. eexists. split; [eapply velocity_backward_last; eassumption|].
  split; apply unit_mobility_component; exact Hdt. Qed.

(* ------------------------------------------------------------------ the bounding-box test (time_series.py:129-147) *)
From Coq Require Import Permutation.
Lemma qmax_comm_eq a b : (qmax a b == qmax b a)%Q.
Proof. unfold qmax. destruct (Qle_bool a b) eqn:E1, (Qle_bool b a) eqn:E2; try reflexivity.
  - apply Qle_bool_iff in E1. apply Qle_bool_iff in E2. apply Qle_antisym; assumption.
  - exfalso. assert (H : ~ (a <= b)%Q) by (intros H; apply Qle_bool_iff in H; congruence).
    assert (H' : ~ (b <= a)%Q) by (intros H'; apply Qle_bool_iff in H'; congruence). apply H. apply Qlt_le_weak. apply Qnot_le_lt. exact H'. Qed.

(* frames whose bounding boxes have the same width and height are never "too different", whatever the positions inside *)
Theorem same_extent_not_too_different (p0 p1 : list vtx) :
  (lmax (xs_of p1) - lmin (xs_of p1) == lmax (xs_of p0) - lmin (xs_of p0))%Q ->
  (lmax (ys_of p1) - lmin (ys_of p1) == lmax (ys_of p0) - lmin (ys_of p0))%Q ->
  too_different p0 p1 = false.
Proof. intros Hx Hy. unfold too_different. apply negb_false_iff. apply Qle_bool_iff.
  set (m := ((1 # 10) * maxcoord_of p0 p1)%Q).
  assert (E : ((lmax (xs_of p1) - lmin (xs_of p1) - (lmax (xs_of p0) - lmin (xs_of p0))) * (lmax (xs_of p1) - lmin (xs_of p1) - (lmax (xs_of p0) - lmin (xs_of p0))) +
               (lmax (ys_of p1) - lmin (ys_of p1) - (lmax (ys_of p0) - lmin (ys_of p0))) * (lmax (ys_of p1) - lmin (ys_of p1) - (lmax (ys_of p0) - lmin (ys_of p0))) == 0)%Q)
    by (rewrite Hx, Hy; ring).
  rewrite E. destruct (Qlt_le_dec m 0) as [Hn | Hp].
  - setoid_replace (m * m)%Q with ((- m) * (- m))%Q by ring. apply Qmult_le_0_compat; apply Qlt_le_weak; apply Qopp_lt_compat in Hn; exact Hn.
  - apply Qmult_le_0_compat; exact Hp. Qed.
Corollary frame_not_too_different_from_itself (p : list vtx) : too_different p p = false.
Proof. apply same_extent_not_too_different; reflexivity. Qed.
