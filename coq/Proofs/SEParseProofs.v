From Coq Require Import ZArith List Bool String Ascii Lia.
From Forsys Require Import Model.SEParse.
Import ListNotations.
Open Scope list_scope.

Definition bs : string := "\"%string.
Definition plain (tok : string) : Prop := contains_close tok = false.

Lemma contains_close_bs : contains_close bs = false. Proof. reflexivity. Qed.
Lemma last_tok_app l x : last_tok (l ++ [x]) = x. Proof. unfold last_tok. apply last_last. Qed.
Lemma last_tok_app2 l x y : last_tok (l ++ [x; y]) = y.
Proof. unfold last_tok. change (l ++ [x; y]) with (l ++ [x] ++ [y]). rewrite app_assoc. apply last_last. Qed.
Lemma drop_last_1 {A} (l : list A) x : drop_last 1 (l ++ [x]) = l.
Proof. unfold drop_last. rewrite app_length. simpl. replace (Datatypes.length l + 1 - 1)%nat with (Datatypes.length l) by lia.
  rewrite firstn_app, Nat.sub_diag, firstn_all. simpl. apply app_nil_r. Qed.
Lemma drop_last_2 {A} (l : list A) x y : drop_last 2 (l ++ [x; y]) = l.
Proof. unfold drop_last. rewrite app_length. simpl. replace (Datatypes.length l + 2 - 2)%nat with (Datatypes.length l) by lia.
  rewrite firstn_app, Nat.sub_diag, firstn_all. simpl. apply app_nil_r. Qed.

(* middle continuation lines *)
Lemma middle_lines ids loops : forall (mids : list (list string)) cur,
  fold_left face_step (map (fun ch => ch ++ [bs]) mids) (mkF ids loops cur false) = mkF ids loops (cur ++ List.concat mids) false.
Proof. induction mids as [|ch t IH]; intros cur; simpl; [rewrite app_nil_r; reflexivity|].
  unfold face_step at 2. simpl f_first. simpl andb. rewrite last_tok_app. unfold bs at 1. rewrite String.eqb_refl. simpl.
  rewrite drop_last_1, IH, <- app_assoc. reflexivity. Qed.

Lemma face_roundtrip_multi ids loops id c (rest : list (list string)) t1 t2 : rest <> [] -> contains_close t2 = true ->
  fold_left face_step ((id :: c ++ [bs]) :: map (fun ch => ch ++ [bs]) (removelast rest) ++ [last rest [] ++ [t1; t2]]) (mkF ids loops [] true)
  = mkF (ids ++ [id]) (loops ++ [c ++ List.concat rest]) [] true.
Proof. intros Hrest Ht2. simpl fold_left. unfold face_step at 2. simpl f_first.
  change (id :: c ++ [bs]) with ((id :: c) ++ [bs]). rewrite last_tok_app, contains_close_bs. simpl.
  rewrite drop_last_1. rewrite fold_left_app, middle_lines. simpl fold_left.
  unfold face_step. simpl f_first. rewrite last_tok_app2. simpl.
  assert (Hne : String.eqb t2 "\"%string = false).
  { destruct (String.eqb_spec t2 "\"%string) as [E|]; [|reflexivity]. rewrite E in Ht2. discriminate. }
  rewrite Hne, Ht2. simpl. rewrite drop_last_2. f_equal. f_equal. f_equal.
  rewrite <- app_assoc. f_equal. rewrite (app_removelast_last [] Hrest) at 3. rewrite concat_app. simpl. rewrite app_nil_r. reflexivity. Qed.

(* a face whose loop is broken over any number of lines is read back as its id and the whole loop *)
Theorem face_roundtrip ids loops id (chunks : list (list string)) t1 t2 :
  contains_close t2 = true ->
  fold_left face_step (serialise_face id chunks t1 t2) (mkF ids loops [] true) = mkF (ids ++ [id]) (loops ++ [List.concat chunks]) [] true.
Proof. intros Ht2. destruct chunks as [|c rest].
  - simpl. unfold face_step. simpl f_first. change [id; t1; t2] with ([id] ++ [t1; t2]). rewrite last_tok_app2, Ht2. simpl.
    rewrite andb_false_r. change [t1; t2] with ([] ++ [t1; t2]). rewrite drop_last_2. reflexivity.
  - destruct rest as [|c2 rest'].
    + simpl serialise_face. simpl fold_left. unfold face_step. simpl f_first.
      change (id :: c ++ [t1; t2]) with ((id :: c) ++ [t1; t2]). rewrite last_tok_app2, Ht2. simpl.
      rewrite andb_false_r, drop_last_2. simpl. rewrite app_nil_r. reflexivity.
    + apply (face_roundtrip_multi ids loops id c (c2 :: rest') t1 t2); [discriminate|exact Ht2]. Qed.

(* any number of faces, each wrapped in its own way *)
Theorem faces_roundtrip : forall (faces : list (string * list (list string) * (string * string))) ids loops,
  Forall (fun f => contains_close (snd (snd f)) = true) faces ->
  fold_left face_step (List.concat (map (fun f => serialise_face (fst (fst f)) (snd (fst f)) (fst (snd f)) (snd (snd f))) faces)) (mkF ids loops [] true)
  = mkF (ids ++ map (fun f => fst (fst f)) faces) (loops ++ map (fun f => List.concat (snd (fst f))) faces) [] true.
Proof. induction faces as [|[[id chunks] [t1 t2]] t IH]; intros ids loops H; simpl.
  - rewrite !app_nil_r. reflexivity.
  - inversion H; subst. rewrite fold_left_app, face_roundtrip by assumption. rewrite IH by assumption. rewrite <- !app_assoc. reflexivity. Qed.

(* how the loop is broken into lines is irrelevant *)
Corollary wrapping_irrelevant id chunks chunks' t1 t2 : contains_close t2 = true -> List.concat chunks = List.concat chunks' ->
  parse_faces (serialise_face id chunks t1 t2) = parse_faces (serialise_face id chunks' t1 t2).
Proof. intros Ht H. unfold parse_faces. rewrite !face_roundtrip by assumption. rewrite H. reflexivity. Qed.

(* a negative edge reference contributes the edge's second vertex, a positive one its first *)
Theorem tail_vertex_sign edges e v1 v2 : find (fun kv => Z.eqb (fst kv) (Z.abs e)) edges = Some (Z.abs e, (v1, v2)) ->
  tail_vertex edges e = Some (if (0 <? e)%Z then v1 else v2).
Proof. intros H. unfold tail_vertex. rewrite H. reflexivity. Qed.

(* vertices in no face are dropped, and so is every edge ending at such a vertex *)
Theorem orphans_dropped vids edges cells :
  (forall v, In v (kept_vertices vids cells) <-> In v vids /\ in_some_cell cells v = true) /\
  (forall k v1 v2, In (k, (v1, v2)) (kept_edges edges cells) <-> In (k, (v1, v2)) edges /\ in_some_cell cells v1 = true /\ in_some_cell cells v2 = true).
Proof. split.
  - intros v. unfold kept_vertices. apply filter_In.
  - intros k v1 v2. unfold kept_edges. rewrite filter_In. simpl. rewrite andb_true_iff. tauto. Qed.

(* ------------------------------------------------------------------ the vertex cycle follows the signed edge loop *)
Lemma tail_head_ends edges e (He : e <> 0%Z) k v1 v2 : find (fun kv => Z.eqb (fst kv) (Z.abs e)) edges = Some (k, (v1, v2)) ->
  (tail_vertex edges e = Some v1 /\ head_vertex edges e = Some v2) \/ (tail_vertex edges e = Some v2 /\ head_vertex edges e = Some v1).
Proof. intros H. unfold head_vertex, tail_vertex. rewrite Z.abs_opp, H. destruct (Z.ltb_spec 0 e).
  - left. split; [reflexivity|]. destruct (Z.ltb_spec 0 (- e)); [lia|reflexivity].
  - right. split; [reflexivity|]. destruct (Z.ltb_spec 0 (- e)); [reflexivity|lia]. Qed.

(* in a face whose signed edges are chained head to tail, the i-th and (i+1)-th vertex of the cycle (cyclically) are the two ends of the
   i-th edge of the loop: every step of the vertex cycle is a recorded mesh edge, walked in the direction its sign says *)
Theorem cycle_steps_are_loop_edges edges first : forall loop, head_to_tail edges first loop = true ->
  forall i e, nth_error loop i = Some e ->
  exists a b, tail_vertex edges e = Some a /\ head_vertex edges e = Some b /\
              nth_error (cell_cycle edges loop) i = Some (Some a) /\
              (match nth_error loop (S i) with Some e' => tail_vertex edges e' | None => tail_vertex edges first end) = Some b.
Proof. induction loop as [|x t IH]; intros H i e Hi; [destruct i; discriminate|]. cbn [head_to_tail] in H.
  destruct (head_vertex edges x) as [h|] eqn:Hh; [|discriminate].
  destruct (tail_vertex edges (match t with [] => first | e' :: _ => e' end)) as [tl|] eqn:Ht; [|discriminate].
  apply andb_true_iff in H. destruct H as [Heq Hrest]. apply Z.eqb_eq in Heq. subst tl.
  destruct i as [|i].
  - cbn [nth_error] in Hi. inversion Hi; subst e. unfold head_vertex in Hh.
    assert (Htx : exists a, tail_vertex edges x = Some a).
    { unfold tail_vertex in Hh |- *. rewrite Z.abs_opp in Hh. destruct (find _ edges) as [[k [v1 v2]]|]; [eexists; reflexivity|discriminate]. }
    destruct Htx as [a Ha]. exists a, h. split; [exact Ha|]. split; [exact Hh|]. split; [cbn [cell_cycle map nth_error]; rewrite Ha; reflexivity|].
    destruct t as [|e' t']; cbn [nth_error]; exact Ht.
  - cbn [nth_error] in Hi. destruct (IH Hrest i e Hi) as [a [b [H1 [H2 [H3 H4]]]]]. exists a, b. repeat split; try assumption. Qed.

(* ------------------------------------------------------------------ the parsed mesh references only what it keeps (C09 for the dump parser) *)
(* every kept mesh edge joins kept vertices (when the dump defines its end points), every vertex of a cell cycle is kept (when the dump
   defines it), and no kept vertex is outside every cell *)
Theorem parsed_mesh_references_exist vids edges cells :
  (forall k v1 v2, In (k, (v1, v2)) (kept_edges edges cells) -> In v1 vids -> In v2 vids ->
     In v1 (kept_vertices vids cells) /\ In v2 (kept_vertices vids cells)) /\
  (forall c v, In c cells -> In v c -> In v vids -> In v (kept_vertices vids cells)) /\
  (forall v, In v (kept_vertices vids cells) -> exists c, In c cells /\ In v c).
Proof.
  destruct (orphans_dropped vids edges cells) as [Hv He]. repeat split.
  - apply Hv. split; [assumption|]. apply He in H. tauto.
  - apply Hv. split; [assumption|]. apply He in H. tauto.
  - intros c v Hc Hin Hvid. apply Hv. split; [exact Hvid|]. unfold in_some_cell. apply existsb_exists. exists c. split; [exact Hc|].
    apply existsb_exists. exists v. split; [exact Hin | apply Z.eqb_refl].
  - intros v H. apply Hv in H. destruct H as [_ H]. unfold in_some_cell in H. apply existsb_exists in H. destruct H as [c [Hc H]].
    apply existsb_exists in H. destruct H as [w [Hw E]]. apply Z.eqb_eq in E. subst w. exists c. split; assumption.
Qed.
