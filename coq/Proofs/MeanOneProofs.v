(* MeanOneProofs.v -- "for consistent systems the mean reported tension is one" (C05): if the augmented system has an exact solution
   among the candidates, whatever minimises the squared residual at least as well solves it exactly, and the last row of an exactly
   solved augmented system says that the tensions sum to their number. *)
From Coq Require Import List Reals Lra Lia.
From Forsys Require Import Model.Num Model.PyList Model.Cert Proofs.CertProofs.
Import ListNotations.
Open Scope R_scope.

Lemma rsqn_self_zero (b : list R) : rsqn (rsub b b) = 0.
Proof.
  unfold sqn. induction b as [|x b IH]; [reflexivity|].
  change (rsub (x :: b) (x :: b)) with (x - x :: rsub b b). rewrite rdot_cons, IH. ring.
Qed.

Theorem consistent_minimiser_is_exact (A : list (list R)) (b z w : list R) :
  length b = length A -> rmv A w = b -> rsqn (rsub (rmv A z) b) <= rsqn (rsub (rmv A w) b) -> rmv A z = b.
Proof.
  intros Hb Hw Hmin. rewrite Hw, rsqn_self_zero in Hmin.
  pose proof (rsqn_nonneg (rsub (rmv A z) b)) as Hge.
  assert (H0 : rsqn (rsub (rmv A z) b) = 0) by lra.
  apply rsqn_zero in H0. apply rsub_zero_eq; [rewrite rmv_length; congruence | exact H0].
Qed.

Theorem exact_augmented_solution_sums_to_n (M : list (list R)) (x b : list R) (lam : R) :
  length b = length M -> rmv (raug M (length x)) (x ++ [lam]) = b ++ [INR (length x)] -> rsum x = INR (length x).
Proof.
  intros Hb H. unfold raug in H. rewrite rmv_app in H.
  assert (Hl : length (rmv (map (fun r => r ++ [1]) M) (x ++ [lam])) = length b) by (rewrite rmv_length, map_length; congruence).
  cbn [mv map] in H. apply app_inj_tail in H. destruct H as [_ H].
  rewrite rdot_app in H by apply repeat_length. rewrite rdot_ones in H. unfold vdot in H at 1. cbn in H. lra.
Qed.

(* the two together, with the mean spelt out *)
Theorem consistent_system_mean_one (M : list (list R)) (x b w : list R) (lam : R) :
  length b = length M -> (0 < length x)%nat ->
  rmv (raug M (length x)) w = b ++ [INR (length x)] ->
  rsqn (rsub (rmv (raug M (length x)) (x ++ [lam])) (b ++ [INR (length x)])) <= rsqn (rsub (rmv (raug M (length x)) w) (b ++ [INR (length x)])) ->
  rsum x / INR (length x) = 1.
Proof.
  intros Hb Hn Hw Hmin.
  assert (Hex : rmv (raug M (length x)) (x ++ [lam]) = b ++ [INR (length x)]).
  { apply (consistent_minimiser_is_exact _ _ _ w); [|exact Hw|exact Hmin].
    unfold raug. rewrite !app_length, map_length. cbn. lia. }
  rewrite (exact_augmented_solution_sums_to_n M x b lam Hb Hex).
  field. apply not_0_INR. lia.
Qed.
