(* WriteBackProofs.v -- after a solve every mesh edge of a used interface carries that interface's entry of the solution, every mesh edge of an
   internal interface left out of the system carries zero, nothing else changes, and none of it depends on what the mesh edges held before (C10). *)
From Coq Require Import ZArith List Bool Lia.
From Forsys Require Import Model.PyList Model.Resample Model.WriteBack Proofs.InterfacesProofs.
Import ListNotations.
Open Scope Z_scope.

Section WB.
  Context {T : Type}.
  Implicit Types m : Z -> T.

  Lemma write_list_app (l1 l2 : list (Z * T)) m : write_list (l1 ++ l2) m = write_list l2 (write_list l1 m).
  Proof. unfold write_list. apply fold_left_app. Qed.
  Lemma write_list_untouched (l : list (Z * T)) m e : ~ In e (map fst l) -> write_list l m e = m e.
  Proof. revert m; induction l as [|[k v] l IH]; intros m H; [reflexivity|]. cbn [write_list fold_left fst snd]. fold (write_list l (upd m k v)).
    rewrite IH by (intros Hin; apply H; right; exact Hin). unfold upd. destruct (Z.eqb_spec e k); [exfalso; apply H; left; symmetry; assumption|reflexivity]. Qed.
  (* if every assignment to e in the list carries the same value and there is one, that value is what e ends with *)
  Lemma write_list_same (l : list (Z * T)) m e v : In e (map fst l) -> (forall w, In (e, w) l -> w = v) -> write_list l m e = v.
  Proof. revert m; induction l as [|[k w] l IH]; intros m Hin Hv; [destruct Hin|]. cbn [write_list fold_left fst snd]. fold (write_list l (upd m k w)).
    destruct (in_dec Z.eq_dec e (map fst l)) as [Hl | Hl].
    - apply IH; [exact Hl|intros w' Hw'; apply Hv; right; exact Hw'].
    - rewrite write_list_untouched by exact Hl. destruct Hin as [Hk | Hk]; [|contradiction]. cbn [fst] in Hk. subst k.
      unfold upd. rewrite Z.eqb_refl. apply Hv. left. reflexivity. Qed.

  Variable pick : Z * Z -> Z.
  Notation etu := (edges_to_use pick).

  Lemma used_assignments_in used (xres : list T) (dflt : T) e (w : T) : In (e, w) (used_assignments pick used xres dflt) ->
    exists i element, nth_error used i = Some element /\ In e (etu element) /\ w = nth i xres dflt.
  Proof. revert xres; induction used as [|el rest IH]; intros xres H; [destruct H|]. cbn [used_assignments] in H. apply in_app_or in H. destruct H as [H | H].
    - apply in_map_iff in H. destruct H as [e' [Heq He']]. inversion Heq; subst. exists 0%nat, el. repeat split; [exact He'|destruct xres; reflexivity].
    - destruct (IH (tl xres) H) as [i [element [Hn [He Hw]]]]. exists (S i), element. repeat split; [exact Hn|exact He|]. rewrite Hw. destruct xres; [destruct i; reflexivity|reflexivity]. Qed.
  Lemma used_assignments_keys used (xres : list T) (dflt : T) e : In e (map fst (used_assignments pick used xres dflt)) <-> exists element, In element used /\ In e (etu element).
  Proof. revert xres; induction used as [|el rest IH]; intros xres; cbn [used_assignments]; [split; [intros []|intros [? [[] _]]]|].
    rewrite map_app, in_app_iff, IH, map_map. cbn [fst]. rewrite map_id. split.
    - intros [H | [element [H1 H2]]]; [exists el; split; [left; reflexivity|exact H]|exists element; split; [right; exact H1|exact H2]].
    - intros [element [[<- | H1] H2]]; [left; exact H2|right; exists element; split; assumption]. Qed.
  Lemma reset_assignments_in (zero : T) internal used e (w : T) : In (e, w) (reset_assignments zero internal used) ->
    w = zero /\ exists be, In be internal /\ ~ In (fst be) used /\ In e (snd be).
  Proof. unfold reset_assignments. intros H. apply in_concat in H. destruct H as [l [Hl He]]. apply in_map_iff in Hl. destruct Hl as [be [<- Hbe]].
    destruct (mem_list (fst be) used) eqn:M; [destruct He|]. apply in_map_iff in He. destruct He as [e' [Heq He']]. inversion Heq; subst.
    split; [reflexivity|]. exists be. repeat split; [exact Hbe| |exact He']. intros Hin. apply mem_list_spec in Hin. congruence. Qed.
  Lemma reset_assignments_keys (zero : T) internal used e : In e (map fst (reset_assignments zero internal used)) <->
    exists be, In be internal /\ ~ In (fst be) used /\ In e (snd be).
  Proof. split.
    - intros H. apply in_map_iff in H. destruct H as [[e' w] [Heq Hin]]. cbn [fst] in Heq. subst e'. apply reset_assignments_in in Hin. tauto.
    - intros [be [Hbe [Hnu He]]]. apply in_map_iff. exists (e, zero). split; [reflexivity|]. unfold reset_assignments. apply in_concat.
      exists (map (fun e0 => (e0, zero)) (snd be)). split; [|apply (in_map (fun e0 : Z => (e0, zero))); exact He]. apply in_map_iff. exists be. split; [|exact Hbe].
      destruct (mem_list (fst be) used) eqn:M; [apply mem_list_spec in M; contradiction|reflexivity]. Qed.

  (* no mesh edge is picked for two different positions of the system *)
  Definition positions_disjoint (used : list (list Z)) : Prop :=
    forall i j a b e, nth_error used i = Some a -> nth_error used j = Some b -> In e (etu a) -> In e (etu b) -> i = j.

  (* (a) the mesh edges of the i-th interface of the system carry the i-th entry of the solution *)
  Theorem used_edges_carry_their_entry (zero dflt : T) internal used xres m i element e :
    positions_disjoint used -> nth_error used i = Some element -> In e (etu element) ->
    write_back pick zero dflt internal used xres m e = nth i xres dflt.
  Proof. intros Hd Hn He. unfold write_back. rewrite write_list_app. apply write_list_same.
    - apply used_assignments_keys. exists element. split; [eapply nth_error_In; exact Hn|exact He].
    - intros w Hw. destruct (used_assignments_in _ _ _ _ _ Hw) as [j [el [Hj [Hej ->]]]]. rewrite (Hd i j element el e Hn Hj He Hej). reflexivity. Qed.

  (* (b) the mesh edges of an internal interface that is not in the system carry zero *)
  Theorem excluded_edges_are_zero (zero dflt : T) internal used xres m be e :
    In be internal -> ~ In (fst be) used -> In e (snd be) -> (forall element, In element used -> ~ In e (etu element)) ->
    write_back pick zero dflt internal used xres m e = zero.
  Proof. intros Hbe Hnu He Hfree. unfold write_back. rewrite write_list_app. rewrite write_list_untouched.
    - apply write_list_same; [apply reset_assignments_keys; exists be; tauto|]. intros w Hw. apply reset_assignments_in in Hw. tauto.
    - intros Hin. apply used_assignments_keys in Hin. destruct Hin as [element [H1 H2]]. exact (Hfree element H1 H2). Qed.

  (* (c) every other mesh edge keeps what it had (external interfaces stay at their value) *)
  Theorem other_edges_unchanged (zero dflt : T) internal used xres m e :
    (forall element, In element used -> ~ In e (etu element)) -> (forall be, In be internal -> ~ In (fst be) used -> ~ In e (snd be)) ->
    write_back pick zero dflt internal used xres m e = m e.
  Proof. intros H1 H2. unfold write_back. rewrite write_list_app. rewrite write_list_untouched.
    - apply write_list_untouched. intros Hin. apply reset_assignments_keys in Hin. destruct Hin as [be [Hbe [Hnu He]]]. exact (H2 be Hbe Hnu He).
    - intros Hin. apply used_assignments_keys in Hin. destruct Hin as [element [Ha Hb]]. exact (H1 element Ha Hb). Qed.

  Lemma classic_used e used : (exists element, In element used /\ In e (etu element)) \/ (forall element, In element used -> ~ In e (etu element)).
  Proof. induction used as [|a rest IH]; [right; intros ? []|]. destruct (in_dec Z.eq_dec e (etu a)) as [H | H]; [left; exists a; split; [left; reflexivity|exact H]|].
    destruct IH as [[el [H1 H2]] | IH]; [left; exists el; split; [right; exact H1|exact H2]|]. right. intros el [<- | Hel]; [exact H|apply IH; exact Hel]. Qed.

  (* (d) what the mesh edges of the internal interfaces held before the solve does not matter *)
  Theorem write_back_forgets_history (zero dflt : T) internal used xres m1 m2 e :
    positions_disjoint used ->
    ((exists element, In element used /\ In e (etu element)) \/ (exists be, In be internal /\ ~ In (fst be) used /\ In e (snd be))) ->
    write_back pick zero dflt internal used xres m1 e = write_back pick zero dflt internal used xres m2 e.
  Proof. intros Hd [[element [Hu He]] | [be [Hbe [Hnu He]]]].
    - destruct (In_nth_error _ _ Hu) as [i Hi]. rewrite !(used_edges_carry_their_entry zero dflt internal used xres _ i element e Hd Hi He). reflexivity.
    - destruct (classic_used e used) as [[element [Hu Hee]] | Hfree].
      + destruct (In_nth_error _ _ Hu) as [i Hi]. rewrite !(used_edges_carry_their_entry zero dflt internal used xres _ i element e Hd Hi Hee). reflexivity.
      + rewrite !(excluded_edges_are_zero zero dflt internal used xres _ be e Hbe Hnu He Hfree). reflexivity. Qed.
End WB.

(* an executable sufficient condition for [positions_disjoint]: no mesh edge is picked twice at all *)
Lemma nodup_app_disj {A} (a b : list A) e : NoDup (a ++ b) -> In e a -> In e b -> False.
Proof. induction a as [|x a IH]; intros Hn Ha Hb; [destruct Ha|]. inversion Hn as [|? ? Hx Hn']; subst. destruct Ha as [-> | Ha].
  - apply Hx. apply in_or_app. right. exact Hb.
  - exact (IH Hn' Ha Hb). Qed.
Lemma nodup_app_r {A} (a b : list A) : NoDup (a ++ b) -> NoDup b.
Proof. induction a as [|x a IH]; intros H; [exact H|]. inversion H; subst. apply IH. assumption. Qed.
Lemma nodup_concat_positions {A B} (f : A -> list B) (l : list A) : NoDup (concat (map f l)) ->
  forall i j a b e, nth_error l i = Some a -> nth_error l j = Some b -> In e (f a) -> In e (f b) -> i = j.
Proof. induction l as [|x t IH]; intros Hn i j a b e Hi Hj Ha Hb; [destruct i; discriminate|]. cbn [map concat] in Hn.
  assert (Hin : forall k c, nth_error t k = Some c -> In e (f c) -> In e (concat (map f t))).
  { intros k c Hk Hc. apply in_concat. exists (f c). split; [apply in_map; eapply nth_error_In; exact Hk|exact Hc]. }
  destruct i as [|i], j as [|j]; cbn [nth_error] in Hi, Hj.
  - reflexivity.
  - inversion Hi; subst. exfalso. exact (nodup_app_disj _ _ e Hn Ha (Hin j b Hj Hb)).
  - inversion Hj; subst. exfalso. exact (nodup_app_disj _ _ e Hn Hb (Hin i a Hi Ha)).
  - f_equal. apply (IH (nodup_app_r _ _ Hn) i j a b e Hi Hj Ha Hb). Qed.
Theorem nodup_picks_positions_disjoint (pick : Z * Z -> Z) used : NoDup (concat (map (edges_to_use pick) used)) -> positions_disjoint pick used.
Proof. intros Hn i j a b e. apply (nodup_concat_positions (edges_to_use pick) used Hn). Qed.
