(* JoinProofs.v -- join_two_vertices / get_unused_id (virtual_edges.py:358-410, Model/Resample.v): the merged vertex gets an id that
   is not in use, sits at the midpoint of the two merged vertices, and both names are redirected to it. *)
From Coq Require Import ZArith QArith List Bool Lia FinFun.
From Forsys Require Import Model.PyList Model.Interfaces Model.Resample Proofs.InterfacesProofs.
Import ListNotations.
Open Scope Z_scope.

Lemma first_free_spec ks : forall fuel n, let r := first_free fuel ks n in
  (~ In r ks /\ n <= r <= n + Z.of_nat fuel) \/ (r = n + Z.of_nat fuel /\ forall i, (i < fuel)%nat -> In (n + Z.of_nat i) ks).
Proof.
  induction fuel as [|f IH]; intros n; cbn [first_free].
  - right. split; [lia|]. intros i Hi. lia.
  - destruct (memZ n ks) eqn:M.
    + apply memZ_spec in M. destruct (IH (n + 1)) as [[H1 H2] | [H1 H2]].
      * left. split; [exact H1|]. lia.
      * right. split; [lia|]. intros i Hi. destruct i as [|i]; [now rewrite Z.add_0_r|].
        replace (n + Z.of_nat (S i)) with (n + 1 + Z.of_nat i) by lia. apply H2. lia.
    + left. split; [|lia]. intros Hin. apply memZ_spec in Hin. congruence.
Qed.
(* the id handed out is never one of the ids in use *)
Theorem get_unused_id_fresh ks : ~ In (get_unused_id ks) ks.
Proof.
  unfold get_unused_id. destruct (first_free_spec ks (S (length ks)) (Z.of_nat (length ks))) as [[H _] | [_ H]]; [exact H|].
  exfalso. set (n := Z.of_nat (length ks)) in *.
  set (l := map (fun i => n + Z.of_nat i) (seq 0 (S (length ks)))).
  assert (Hnd : NoDup l).
  { unfold l. apply FinFun.Injective_map_NoDup; [intros i j E; lia|apply seq_NoDup]. }
  assert (Hincl : incl l ks).
  { intros z Hz. unfold l in Hz. apply in_map_iff in Hz. destruct Hz as [i [<- Hi]]. apply in_seq in Hi. apply H. lia. }
  pose proof (NoDup_incl_length Hnd Hincl) as Hlen. unfold l in Hlen. rewrite map_length, seq_length in Hlen. lia.
Qed.
(* ... but it may be an id that an earlier merge deleted (the root of known finding D7: stale entries of the id map then point at it) *)
Example unused_id_can_repeat_a_deleted_id : get_unused_id [4; 5] = 2.
Proof. vm_compute. reflexivity. Qed.

Lemma has_key_assoc {A} (d : list (Z * A)) k : has_key d k = true -> exists v, assoc d k = Some v.
Proof. unfold has_key. destruct (assoc d k) as [v|]; [eexists; reflexivity|discriminate]. Qed.
Lemma lookup_present st mapper k : has_key (vs st) k = true -> lookup_vertex st mapper k = Some k.
Proof. intros H. unfold lookup_vertex. now rewrite H. Qed.

(* one merge of two vertices that are both present *)
Theorem join_two_spec st mapper a b st' m' :
  has_key (vs st) a = true -> has_key (vs st) b = true -> join_two st mapper a b = Some (st', m') ->
  exists x0 y0 x1 y1,
    assoc (vs st) a = Some (x0, y0) /\ assoc (vs st) b = Some (x1, y1) /\
    let nid := get_unused_id (keys (vs st)) in
    ~ In nid (keys (vs st)) /\
    vs st' = del_key (del_key (vs st ++ [(nid, (Qred ((x0 + x1) / 2), Qred ((y0 + y1) / 2))%Q)]) a) b /\
    m' = set_key (set_key mapper a nid) b nid.
Proof.
  intros Ha Hb H. unfold join_two in H. rewrite (lookup_present st mapper a Ha), (lookup_present st mapper b Hb) in H.
  destruct (has_key_assoc _ _ Ha) as [[x0 y0] Ea]. destruct (has_key_assoc _ _ Hb) as [[x1 y1] Eb]. rewrite Ea, Eb in H.
  destruct (filter _ (es st)) as [|[ce ee] rest]; [discriminate|]. injection H as <- <-.
  exists x0, y0, x1, y1. split; [exact Ea|]. split; [exact Eb|]. cbn zeta. split; [apply get_unused_id_fresh|]. split; reflexivity.
Qed.
(* the merged vertex sits at the midpoint, whatever the signs of the coordinates *)
Corollary join_two_midpoint st mapper a b st' m' x0 y0 x1 y1 :
  has_key (vs st) a = true -> has_key (vs st) b = true -> a <> b -> join_two st mapper a b = Some (st', m') ->
  assoc (vs st) a = Some (x0, y0) -> assoc (vs st) b = Some (x1, y1) ->
  exists p, In (get_unused_id (keys (vs st)), p) (vs st') /\ (fst p == (x0 + x1) / 2)%Q /\ (snd p == (y0 + y1) / 2)%Q.
Proof.
  intros Ha Hb Hab H Ea Eb. destruct (join_two_spec st mapper a b st' m' Ha Hb H) as [x0' [y0' [x1' [y1' [Ea' [Eb' [Hfresh [Hvs _]]]]]]]].
  rewrite Ea in Ea'. rewrite Eb in Eb'. injection Ea' as <- <-. injection Eb' as <- <-.
  exists (Qred ((x0 + x1) / 2), Qred ((y0 + y1) / 2))%Q. split; [|split; apply Qred_correct].
  rewrite Hvs. unfold del_key. rewrite !filter_In. split; [split|].
  - apply in_or_app. right. left. reflexivity.
  - cbn [fst]. apply negb_true_iff, Z.eqb_neq. intros E. apply Hfresh. rewrite E.
    destruct (has_key_assoc _ _ Ha) as [v Hv]. clear -Hv. unfold keys. induction (vs st) as [|[k w] t IH]; [discriminate|].
    cbn [assoc] in Hv. cbn [map fst]. destruct (Z.eqb k a) eqn:Ek; [left; now apply Z.eqb_eq|right; now apply IH].
  - cbn [fst]. apply negb_true_iff, Z.eqb_neq. intros E. apply Hfresh. rewrite E.
    destruct (has_key_assoc _ _ Hb) as [v Hv]. clear -Hv. unfold keys. induction (vs st) as [|[k w] t IH]; [discriminate|].
    cbn [assoc] in Hv. cbn [map fst]. destruct (Z.eqb k b) eqn:Ek; [left; now apply Z.eqb_eq|right; now apply IH].
Qed.
