(* JoinProofs.v -- join_two_vertices / get_unused_id (virtual_edges.py:358-410, Model/Resample.v): the merged vertex gets an id that
   is not in use, sits at the midpoint of the two merged vertices, and both names are redirected to it. *)
From Coq Require Import ZArith QArith List Bool Lia FinFun.
From Forsys Require Import Model.PyList Model.Interfaces Model.Resample Proofs.InterfacesProofs.
Import ListNotations.
Open Scope Z_scope.

Lemma first_free_spec ks : forall fuel n, let r := first_free fuel ks n in
  (~ In r ks /\ n <= r <= n + Z.of_nat fuel) \/ (r = n + Z.of_nat fuel /\ forall i, (i < fuel)%nat -> In (n + Z.of_nat i) ks).
Proof.
  induction fuel as [|f IH]; intros n; cbn [first_free].
  - right. split; [lia|]. intros i Hi. lia.
  - destruct (memZ n ks) eqn:M.
    + apply memZ_spec in M. destruct (IH (n + 1)) as [[H1 H2] | [H1 H2]].
      * left. split; [exact H1|]. lia.
      * right. split; [lia|]. intros i Hi. destruct i as [|i]; [now rewrite Z.add_0_r|].
        replace (n + Z.of_nat (S i)) with (n + 1 + Z.of_nat i) by lia. apply H2. lia.
    + left. split; [|lia]. intros Hin. apply memZ_spec in Hin. congruence.
Qed.
(* the id handed out is never one of the ids in use *)
Theorem get_unused_id_fresh ks : ~ In (get_unused_id ks) ks.
Proof.
  unfold get_unused_id. destruct (first_free_spec ks (S (length ks)) (Z.of_nat (length ks))) as [[H _] | [_ H]]; [exact H|].
  exfalso. set (n := Z.of_nat (length ks)) in *.
  set (l := map (fun i => n + Z.of_nat i) (seq 0 (S (length ks)))).
  assert (Hnd : NoDup l).
  { unfold l. apply FinFun.Injective_map_NoDup; [intros i j E; lia|apply seq_NoDup]. }
  assert (Hincl : incl l ks).
  { intros z Hz. unfold l in Hz. apply in_map_iff in Hz. destruct Hz as [i [<- Hi]]. apply in_seq in Hi. apply H. lia. }
  pose proof (NoDup_incl_length Hnd Hincl) as Hlen. unfold l in Hlen. rewrite map_length, seq_length in Hlen. lia.
Qed.
(* ... but it may be an id that an earlier merge deleted (the root of known finding D7: stale entries of the id map then point at it) *)
Example unused_id_can_repeat_a_deleted_id : get_unused_id [4; 5] = 2.
Proof. vm_compute. reflexivity. Qed.

Lemma has_key_assoc {A} (d : list (Z * A)) k : has_key d k = true -> exists v, assoc d k = Some v.
Proof. unfold has_key. destruct (assoc d k) as [v|]; [eexists; reflexivity|discriminate]. Qed.
Lemma lookup_present st mapper k : has_key (vs st) k = true -> lookup_vertex st mapper k = Some k.
Proof. intros H. unfold lookup_vertex. now rewrite H. Qed.

(* one merge of two vertices that are both present *)
Theorem join_two_spec st mapper a b st' m' :
  has_key (vs st) a = true -> has_key (vs st) b = true -> join_two st mapper a b = Some (st', m') ->
  exists x0 y0 x1 y1,
    assoc (vs st) a = Some (x0, y0) /\ assoc (vs st) b = Some (x1, y1) /\
    let nid := get_unused_id (keys (vs st)) in
    ~ In nid (keys (vs st)) /\
    vs st' = del_key (del_key (vs st ++ [(nid, (Qred ((x0 + x1) / 2), Qred ((y0 + y1) / 2))%Q)]) a) b /\
    m' = set_key (set_key mapper a nid) b nid.
Proof.
  intros Ha Hb H. unfold join_two in H. rewrite (lookup_present st mapper a Ha), (lookup_present st mapper b Hb) in H.
  destruct (has_key_assoc _ _ Ha) as [[x0 y0] Ea]. destruct (has_key_assoc _ _ Hb) as [[x1 y1] Eb]. rewrite Ea, Eb in H.
  destruct (filter _ (es st)) as [|[ce ee] rest]; [discriminate|]. injection H as <- <-.
  exists x0, y0, x1, y1. split; [exact Ea|]. split; [exact Eb|]. cbn zeta. split; [apply get_unused_id_fresh|]. split; reflexivity.
Qed.
(* the merged vertex sits at the midpoint, whatever the signs of the coordinates *)
Corollary join_two_midpoint st mapper a b st' m' x0 y0 x1 y1 :
  has_key (vs st) a = true -> has_key (vs st) b = true -> a <> b -> join_two st mapper a b = Some (st', m') ->
  assoc (vs st) a = Some (x0, y0) -> assoc (vs st) b = Some (x1, y1) ->
  exists p, In (get_unused_id (keys (vs st)), p) (vs st') /\ (fst p == (x0 + x1) / 2)%Q /\ (snd p == (y0 + y1) / 2)%Q.
Proof.
  intros Ha Hb Hab H Ea Eb. destruct (join_two_spec st mapper a b st' m' Ha Hb H) as [x0' [y0' [x1' [y1' [Ea' [Eb' [Hfresh [Hvs _]]]]]]]].
  rewrite Ea in Ea'. rewrite Eb in Eb'. injection Ea' as <- <-. injection Eb' as <- <-.
  exists (Qred ((x0 + x1) / 2), Qred ((y0 + y1) / 2))%Q. split; [|split; apply Qred_correct].
  rewrite Hvs. unfold del_key. rewrite !filter_In. split; [split|].
  - apply in_or_app. right. left. reflexivity.
  - cbn [fst]. apply negb_true_iff, Z.eqb_neq. intros E. apply Hfresh. rewrite E.
    destruct (has_key_assoc _ _ Ha) as [v Hv]. clear -Hv. unfold keys. induction (vs st) as [|[k w] t IH]; [discriminate|].
    cbn [assoc] in Hv. cbn [map fst]. destruct (Z.eqb k a) eqn:Ek; [left; now apply Z.eqb_eq|right; now apply IH].
  - cbn [fst]. apply negb_true_iff, Z.eqb_neq. intros E. apply Hfresh. rewrite E.
    destruct (has_key_assoc _ _ Hb) as [v Hv]. clear -Hv. unfold keys. induction (vs st) as [|[k w] t IH]; [discriminate|].
    cbn [assoc] in Hv. cbn [map fst]. destruct (Z.eqb k b) eqn:Ek; [left; now apply Z.eqb_eq|right; now apply IH].
Qed.

(* ================================================================== a merge keeps every reference alive (C09 for the merge path) *)
Lemma replace_first_In_nodup o n l x : NoDup l -> In x (replace_first o n l) -> x = n \/ (In x l /\ x <> o).
Proof. induction l as [|y t IH]; intros Hnd H; [destruct H|]. inversion Hnd as [|? ? Hy Hnd']; subst. cbn [replace_first] in H.
  destruct (Z.eqb_spec y o) as [-> | Hyo].
  - destruct H as [<- | H]; [left; reflexivity|]. right. split; [right; exact H|]. intros ->. contradiction.
  - destruct H as [<- | H]; [right; split; [left; reflexivity|exact Hyo]|]. destruct (IH Hnd' H) as [-> | [H1 H2]]; [left; reflexivity|right; split; [right; exact H1|exact H2]]. Qed.
Lemma remove_first_In_nodup o l x : NoDup l -> In x (remove_first o l) -> In x l /\ x <> o.
Proof. induction l as [|y t IH]; intros Hnd H; [destruct H|]. inversion Hnd as [|? ? Hy Hnd']; subst. cbn [remove_first] in H.
  destruct (Z.eqb_spec y o) as [-> | Hyo].
  - split; [right; exact H|]. intros ->. contradiction.
  - destruct H as [<- | H]; [split; [left; reflexivity|exact Hyo]|]. destruct (IH Hnd' H) as [H1 H2]. split; [right; exact H1|exact H2]. Qed.
Lemma replace_first_nodup o n l : NoDup l -> ~ In n l -> NoDup (replace_first o n l).
Proof. induction l as [|y t IH]; intros Hnd Hn; [constructor|]. inversion Hnd as [|? ? Hy Hnd']; subst. cbn [replace_first].
  destruct (Z.eqb_spec y o) as [-> | Hyo].
  - constructor; [intros H; apply Hn; right; exact H|exact Hnd'].
  - constructor; [|apply IH; [exact Hnd'|intros H; apply Hn; right; exact H]].
    intros H. destruct (replace_first_In_nodup o n t y Hnd' H) as [-> | [H1 _]]; [apply Hn; left; reflexivity|contradiction]. Qed.
Lemma remove_first_nodup o l : NoDup l -> NoDup (remove_first o l).
Proof. induction l as [|y t IH]; intros Hnd; [constructor|]. inversion Hnd as [|? ? Hy Hnd']; subst. cbn [remove_first].
  destruct (Z.eqb y o); [exact Hnd'|]. constructor; [|apply IH; exact Hnd']. intros H. destruct (remove_first_In_nodup o t y Hnd' H) as [H1 _]. contradiction. Qed.

(* replacing old by new in a duplicate-free cycle: old is gone, nothing else appears but new, no vertex is repeated *)
Lemma cell_replace_spec old new cyc : NoDup cyc ->
  NoDup (cell_replace_vertex old new cyc) /\ forall x, In x (cell_replace_vertex old new cyc) -> x = new \/ (In x cyc /\ x <> old).
Proof. intros Hnd. unfold cell_replace_vertex. destruct (memZ new cyc) eqn:M.
  - split; [apply remove_first_nodup; exact Hnd|]. intros x H. right. apply remove_first_In_nodup; assumption.
  - assert (Hn : ~ In new cyc) by (intros H; apply memZ_spec in H; congruence).
    split; [apply replace_first_nodup; assumption|]. intros x H. apply replace_first_In_nodup; assumption. Qed.

Lemma edge_replace_spec old new (e : Z * Z) : fst e <> snd e -> (fst e = old \/ snd e = old) ->
  let e' := edge_replace_vertex old new e in
  (fst e' = new \/ (fst e' = fst e /\ fst e <> old)) /\ (snd e' = new \/ (snd e' = snd e /\ snd e <> old)).
Proof. intros Hne Ho. unfold edge_replace_vertex. destruct (Z.eqb_spec (fst e) old) as [E | E]; cbn [fst snd].
  - split; [left; reflexivity|right; split; [reflexivity|]]. intros H. apply Hne. congruence.
  - split; [right; split; [reflexivity|exact E]|left; reflexivity]. Qed.

Definition refs_ok (st : vstate) : Prop :=
  (forall k a b, In (k, (a, b)) (es st) -> In a (keys (vs st)) /\ In b (keys (vs st))) /\
  (forall c cyc v, In (c, cyc) (cs st) -> In v cyc -> In v (keys (vs st))).

Lemma keys_del_key {A} (d : list (Z * A)) k x : In x (keys (del_key d k)) <-> In x (keys d) /\ x <> k.
Proof. unfold keys, del_key. rewrite !in_map_iff. split.
  - intros [[k' v] [E H]]. cbn [fst] in E. subst k'. apply filter_In in H. destruct H as [H1 H2]. cbn [fst] in H2.
    split; [exists (x, v); split; [reflexivity|exact H1]|]. apply negb_true_iff, Z.eqb_neq in H2. exact H2.
  - intros [[[k' v] [E H]] Hne]. cbn [fst] in E. subst k'. exists (x, v). split; [reflexivity|]. apply filter_In. split; [exact H|].
    cbn [fst]. apply negb_true_iff, Z.eqb_neq. exact Hne. Qed.

(* merging two present vertices of a mesh without self-loops and without repeated cycle vertices: every mesh edge still ends at existing
   vertices, every cycle vertex still exists, the two merged vertices are referenced nowhere, and no cycle repeats a vertex *)
Theorem join_two_keeps_references st mapper a b st' m' :
  has_key (vs st) a = true -> has_key (vs st) b = true -> a <> b -> refs_ok st ->
  (forall k p q, In (k, (p, q)) (es st) -> p <> q) -> (forall c cyc, In (c, cyc) (cs st) -> NoDup cyc) ->
  join_two st mapper a b = Some (st', m') ->
  refs_ok st' /\ (forall c cyc, In (c, cyc) (cs st') -> NoDup cyc /\ ~ In a cyc /\ ~ In b cyc) /\
  (forall k p q, In (k, (p, q)) (es st') -> p <> a /\ p <> b /\ q <> a /\ q <> b).
Proof. intros Ha Hb Hab [Re Rc] Hloop Hnd H.
  destruct (join_two_spec st mapper a b st' m' Ha Hb H) as [x0 [y0 [x1 [y1 [Ea [Eb [Hfresh [Hvs _]]]]]]]].
  set (nid := get_unused_id (keys (vs st))) in *.
  assert (Hkeys : forall x, In x (keys (vs st')) <-> (In x (keys (vs st)) \/ x = nid) /\ x <> a /\ x <> b).
  { intros x. rewrite Hvs, !keys_del_key. unfold keys. rewrite map_app, in_app_iff. cbn [map fst In]. intuition. }
  unfold join_two in H. rewrite (lookup_present st mapper a Ha), (lookup_present st mapper b Hb), Ea, Eb in H.
  destruct (filter _ (es st)) as [|[ce ee] rest] eqn:Ecommon; [discriminate|]. injection H as Hst _. fold nid in Hst.
  assert (Hna : nid <> a) by (intros E; apply Hfresh; rewrite E; destruct (has_key_assoc _ _ Ha) as [w Hw]; clear -Hw; unfold keys;
    induction (vs st) as [|[k w'] t IH]; [discriminate|]; cbn [assoc] in Hw; cbn [map fst]; destruct (Z.eqb k a) eqn:Ek; [left; now apply Z.eqb_eq|right; now apply IH]).
  assert (Hnb : nid <> b) by (intros E; apply Hfresh; rewrite E; destruct (has_key_assoc _ _ Hb) as [w Hw]; clear -Hw; unfold keys;
    induction (vs st) as [|[k w'] t IH]; [discriminate|]; cbn [assoc] in Hw; cbn [map fst]; destruct (Z.eqb k b) eqn:Ek; [left; now apply Z.eqb_eq|right; now apply IH]).
  (* cycles *)
  assert (Cyc : forall c cyc, In (c, cyc) (cs st') -> NoDup cyc /\ ~ In a cyc /\ ~ In b cyc /\ forall x, In x cyc -> In x (keys (vs st'))).
  { intros c cyc Hin. rewrite <- Hst in Hin. cbn [cs] in Hin. apply in_map_iff in Hin. destruct Hin as [[c1 cyc1] [E1 Hin1]]. cbn [fst snd] in E1.
    apply in_map_iff in Hin1. destruct Hin1 as [[c0 cyc0] [E0 Hin0]]. cbn [fst snd] in E0. inversion E0; subst c1 cyc1. inversion E1; subst c cyc. clear E0 E1.
    pose proof (Hnd c0 cyc0 Hin0) as N0. pose proof (Rc c0 cyc0) as R0. specialize (R0) with (1 := Hin0).
    assert (Hnid0 : ~ In nid cyc0) by (intros Hx; apply Hfresh; exact (R0 nid Hx)).
    (* step 1 *)
    set (cyc1 := if memZ a cyc0 then cell_replace_vertex a nid cyc0 else cyc0).
    assert (S1 : NoDup cyc1 /\ ~ In a cyc1 /\ forall x, In x cyc1 -> x = nid \/ (In x cyc0 /\ x <> a)).
    { unfold cyc1. destruct (memZ a cyc0) eqn:Ma.
      - destruct (cell_replace_spec a nid cyc0 N0) as [N1 I1]. split; [exact N1|]. split; [|exact I1].
        intros Hx. destruct (I1 a Hx) as [E | [_ E]]; [apply Hna; symmetry; exact E|apply E; reflexivity].
      - split; [exact N0|]. split; [intros Hx; apply memZ_spec in Hx; congruence|]. intros x Hx. right. split; [exact Hx|]. intros ->. apply memZ_spec in Hx. congruence. }
    destruct S1 as [N1 [A1 I1]].
    set (cyc2 := if memZ b cyc1 then cell_replace_vertex b nid cyc1 else cyc1).
    assert (S2 : NoDup cyc2 /\ ~ In b cyc2 /\ forall x, In x cyc2 -> x = nid \/ (In x cyc1 /\ x <> b)).
    { unfold cyc2. destruct (memZ b cyc1) eqn:Mb.
      - destruct (cell_replace_spec b nid cyc1 N1) as [N2 I2]. split; [exact N2|]. split; [|exact I2].
        intros Hx. destruct (I2 b Hx) as [E | [_ E]]; [apply Hnb; symmetry; exact E|apply E; reflexivity].
      - split; [exact N1|]. split; [intros Hx; apply memZ_spec in Hx; congruence|]. intros x Hx. right. split; [exact Hx|]. intros ->. apply memZ_spec in Hx. congruence. }
    destruct S2 as [N2 [B2 I2]]. fold cyc1. fold cyc2. split; [exact N2|]. split.
    - intros Hx. destruct (I2 a Hx) as [E | [Hx1 _]]; [apply Hna; symmetry; exact E|contradiction].
    - split; [exact B2|]. intros x Hx. apply Hkeys. destruct (I2 x Hx) as [-> | [Hx1 Hxb]].
      + split; [right; reflexivity|split; assumption].
      + destruct (I1 x Hx1) as [-> | [Hx0 Hxa]]; [split; [right; reflexivity|split; assumption]|]. split; [left; exact (R0 x Hx0)|split; assumption]. }
  (* edges *)
  assert (Edg : forall k p q, In (k, (p, q)) (es st') -> (p <> a /\ p <> b /\ q <> a /\ q <> b) /\ In p (keys (vs st')) /\ In q (keys (vs st'))).
  { intros k p q Hin. rewrite <- Hst in Hin. cbn [es] in Hin. apply in_map_iff in Hin. destruct Hin as [[k2 [p1 q1]] [E2 Hin2]]. cbn [fst snd] in E2.
    injection E2 as Hk Hpq. subst k2.
    apply in_map_iff in Hin2. destruct Hin2 as [[k1 [p0 q0]] [E1 Hin1]]. cbn [fst snd] in E1. injection E1 as Hk1 He1. subst k1.
    unfold del_key in Hin1. apply filter_In in Hin1. destruct Hin1 as [Hin0 _].
    pose proof (Hloop k p0 q0 Hin0) as L0. destruct (Re k p0 q0 Hin0) as [Kp Kq].
    assert (Hnp : p0 <> nid) by (intros E; apply Hfresh; rewrite <- E; exact Kp). assert (Hnq : q0 <> nid) by (intros E; apply Hfresh; rewrite <- E; exact Kq).
    (* step 1: occurrences of a become nid *)
    assert (S1 : (p1 = nid \/ (p1 = p0 /\ p0 <> a)) /\ (q1 = nid \/ (q1 = q0 /\ q0 <> a))).
    { destruct (Z.eqb_spec p0 a) as [Ep | Ep]; cbn [orb] in He1.
      - pose proof (edge_replace_spec a nid (p0, q0)) as Hs. cbn [fst snd] in Hs. specialize (Hs L0 (or_introl Ep)). rewrite He1 in Hs. exact Hs.
      - destruct (Z.eqb_spec q0 a) as [Eq | Eq].
        + pose proof (edge_replace_spec a nid (p0, q0)) as Hs. cbn [fst snd] in Hs. specialize (Hs L0 (or_intror Eq)). rewrite He1 in Hs. exact Hs.
        + injection He1 as <- <-. split; right; split; try reflexivity; assumption. }
    destruct S1 as [Sp Sq].
    (* step 2: occurrences of b become nid *)
    assert (S2 : (p = nid \/ (p = p1 /\ p1 <> b)) /\ (q = nid \/ (q = q1 /\ q1 <> b))).
    { destruct (Z.eqb_spec p1 b) as [Ep | Ep]; cbn [orb] in Hpq.
      - unfold edge_replace_vertex in Hpq. cbn [fst snd] in Hpq. rewrite Ep, Z.eqb_refl in Hpq. injection Hpq as <- <-. split; [left; reflexivity|].
        destruct (Z.eq_dec q1 b) as [Eqb | Nqb]; [|right; split; [reflexivity|exact Nqb]].
        exfalso. destruct Sp as [Sp | [Sp _]]; [apply Hnb; congruence|]. destruct Sq as [Sq | [Sq _]]; [apply Hnb; congruence|]. apply L0. congruence.
      - destruct (Z.eqb_spec q1 b) as [Eq | Eq].
        + unfold edge_replace_vertex in Hpq. cbn [fst snd] in Hpq. destruct (Z.eqb_spec p1 b); [contradiction|]. injection Hpq as <- <-.
          split; [right; split; [reflexivity|exact Ep]|left; reflexivity].
        + injection Hpq as <- <-. split; right; split; try reflexivity; assumption. }
    destruct S2 as [Tp Tq].
    assert (Fp : p = nid \/ (p = p0 /\ p0 <> a /\ p0 <> b)).
    { destruct Tp as [-> | [-> Hpb]]; [left; reflexivity|]. destruct Sp as [-> | [-> Hpa]]; [left; reflexivity|right; repeat split; assumption]. }
    assert (Fq : q = nid \/ (q = q0 /\ q0 <> a /\ q0 <> b)).
    { destruct Tq as [-> | [-> Hqb]]; [left; reflexivity|]. destruct Sq as [-> | [-> Hqa]]; [left; reflexivity|right; repeat split; assumption]. }
    split; [|split].
    - destruct Fp as [-> | [-> [? ?]]], Fq as [-> | [-> [? ?]]]; repeat split; assumption.
    - apply Hkeys. destruct Fp as [-> | [-> [? ?]]]; [split; [right; reflexivity|split; assumption]|split; [left; exact Kp|split; assumption]].
    - apply Hkeys. destruct Fq as [-> | [-> [? ?]]]; [split; [right; reflexivity|split; assumption]|split; [left; exact Kq|split; assumption]]. }
  split; [split|split].
  - intros k p q Hin. apply (Edg k p q Hin).
  - intros c cyc v Hin Hv. destruct (Cyc c cyc Hin) as [_ [_ [_ K]]]. apply K. exact Hv.
  - intros c cyc Hin. destruct (Cyc c cyc Hin) as [N [A [B _]]]. repeat split; assumption.
  - intros k p q Hin. apply (Edg k p q Hin). Qed.
