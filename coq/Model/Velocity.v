(* Velocity.v -- the normalisation step of ForceMatrix.set_velocity_matrix (fmatrix.py:476-490): with adimensional velocities the
   right-hand side is divided by the mean speed of ALL used junctions (resting ones and ones without tracked partner included),
   then multiplied by velocity_normalization; that mean is the number reported as the frame's system velocity.
   Polymorphic in NumOps (R for theorems, PrimFloat for the correspondence).  No proofs here. *)
From Coq Require Import ZArith List Bool.
From Forsys Require Import Model.Num.
Import ListNotations.

Section Adim.
  Context {T : Type} (N : NumOps T).
  Definition speed (v : T * T) : T := nsqrt N (add N (mul N (fst v) (fst v)) (mul N (snd v) (snd v))).
  (* np.mean([np.linalg.norm(vector) for vector in vector_of_vectors]) *)
  Definition mean_speed (vs : list (T * T)) : T := div N (sum N (map speed vs)) (ofZ N (Z.of_nat (length vs))).
  (* vs : one velocity vector per used junction, in the order of map_vid_to_row *)
  Definition average_velocity (adim : bool) (vs : list (T * T)) : T :=
    match vs with
    | [] => one N
    | _ => if adim then mean_speed vs else one N
    end.
  (* b = (b / average_velocity) * self.velocity_normalization *)
  Definition scale_rhs (b : list T) (avg vn : T) : list T := map (fun x => mul N (div N x avg) vn) b.
  Definition velocity_matrix (adim : bool) (vs : list (T * T)) (b : list T) (vn : T) : list T * T :=
    let avg := average_velocity adim vs in (scale_rhs b avg vn, avg).
End Adim.
