(* Session.v -- the ForSys object as a state machine over per-frame stores (forsys/forsys.py:47-105,213-236).
   Solver results are symbolic tokens: what a frame reports is determined by which (build arguments, solve arguments) produced it.
   Argument records are opaque ids (nat) kept in a table by the harness.  No proofs here. *)
From Coq Require Import List Bool Arith.
Import ListNotations.

Inductive op :=
| BuildF (t a : nat)          (* build_force_matrix(when=t, **args a) *)
| SolveS (t b : nat)          (* solve_stress(when=t, **args b) *)
| BuildP (t : nat)            (* build_pressure_matrix(when=t) *)
| SolveP (t c : nat)          (* solve_pressure(when=t, **args c) *)
| SysVel (a : nat).           (* get_system_velocity_per_frame(angle_limit): rebuilds every frame's force matrix with args a *)

(* tension token: frame, build args, solve args *)
Definition ttok := (nat * nat * nat)%type.
(* pressure token: frame, tensions on the interfaces when the pressure matrix was built, solve args *)
Definition ptok := (nat * option ttok * nat)%type.

Record state := mkS {
  fm : nat -> option nat;             (* force_matrices[t] : its build args *)
  forces : nat -> option ttok;        (* forces[t] = frames[t].forces *)
  tens : nat -> option ttok;          (* tensions stored on the (non-excluded) interfaces / mesh edges of frame t *)
  pm : nat -> option (option ttok);   (* pressure_matrices[t] : built from these interface tensions *)
  pres : nat -> option ptok           (* pressures[t] and the cells' pressures *)
}.
Definition init : state := mkS (fun _ => None) (fun _ => None) (fun _ => None) (fun _ => None) (fun _ => None).

Definition upd {A} (f : nat -> A) (k : nat) (v : A) : nat -> A := fun i => if Nat.eqb i k then v else f i.

Definition step (nframes : nat) (s : state) (o : op) : state :=
  match o with
  | BuildF t a => mkS (upd (fm s) t (Some a)) (forces s) (tens s) (pm s) (pres s)
  | SolveS t b => match fm s t with
                  | Some a => mkS (fm s) (upd (forces s) t (Some (t, a, b))) (upd (tens s) t (Some (t, a, b))) (pm s) (pres s)
                  | None => s      (* KeyError: no matrix built *)
                  end
  | BuildP t => mkS (fm s) (forces s) (tens s) (upd (pm s) t (Some (tens s t))) (pres s)
  | SolveP t c => match pm s t with
                  | Some tk => mkS (fm s) (forces s) (tens s) (pm s) (upd (pres s) t (Some (t, tk, c)))
                  | None => s
                  end
  | SysVel a => mkS (fun i => if Nat.ltb i nframes then Some a else fm s i) (forces s) (tens s) (pm s) (pres s)
  end.
Definition run (nframes : nat) (h : list op) : state := fold_left (step nframes) h init.

(* an operation that (re)builds frame t's force matrix *)
Definition builds (nframes : nat) (t : nat) (o : op) : option nat :=
  match o with
  | BuildF t' a => if Nat.eqb t' t then Some a else None
  | SysVel a => if Nat.ltb t nframes then Some a else None
  | _ => None
  end.
Definition solves (t : nat) (o : op) : option nat :=
  match o with SolveS t' b => if Nat.eqb t' t then Some b else None | _ => None end.
