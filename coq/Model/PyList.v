(* PyList.v -- Python list / dict idioms used by the models. No proofs. *)
From Coq Require Import ZArith List Bool.
Import ListNotations.
Open Scope Z_scope.

Fixpoint listZ_eq (a b : list Z) : bool :=
  match a, b with [] , [] => true | x :: s, y :: t => Z.eqb x y && listZ_eq s t | _, _ => false end.
Definition memZ (x : Z) (l : list Z) : bool := existsb (Z.eqb x) l.
Definition mem_list (e : list Z) (l : list (list Z)) : bool := existsb (listZ_eq e) l.

(* insertion-ordered dict as association list *)
Fixpoint assoc {A} (d : list (Z * A)) (k : Z) : option A :=
  match d with [] => None | (k', v) :: t => if Z.eqb k' k then Some v else assoc t k end.
Definition assoc_def {A} (dflt : A) (d : list (Z * A)) (k : Z) : A :=
  match assoc d k with Some v => v | None => dflt end.
Definition keys {A} (d : list (Z * A)) : list Z := map fst d.

(* list(set(a) & set(b)) as an (unordered) list: elements of a that are in b, without repeats *)
Fixpoint dedup (l : list Z) : list Z :=
  match l with [] => [] | x :: t => if memZ x t then dedup t else x :: dedup t end.
Definition inter (a b : list Z) : list Z := dedup (filter (fun x => memZ x b) a).

Fixpoint index_list (e : list Z) (l : list (list Z)) : option nat :=
  match l with [] => None | x :: t => if listZ_eq x e then Some 0%nat else option_map S (index_list e t) end.

Definition rot1 {A} (l : list A) : list A := match l with [] => [] | x :: t => t ++ [x] end.
Definition lastZ (l : list Z) : Z := last l 0.
Definition headZ (l : list Z) : Z := hd 0 l.
