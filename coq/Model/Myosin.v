(* Myosin.v -- window statistics of forsys/myosin.py over an image Z -> Z -> Q (getpixel truncates float coordinates toward zero;
   the harness hands integer pixel coordinates of the window centre).  No proofs here. *)
From Coq Require Import ZArith QArith List Bool.
Import ListNotations.
Open Scope Z_scope.

(* myosin.py:82-88 get_layer_elements : itertools.product(range(-L, L+1), repeat=2) around the position *)
Definition zrange (a : Z) (n : nat) : list Z := map (fun i => a + Z.of_nat i) (seq 0 n).
Definition layer_elements (x y : Z) (layers : nat) : list (Z * Z) :=
  flat_map (fun ii => map (fun kk => (x + ii, y + kk)) (zrange (- Z.of_nat layers) (2 * layers + 1))) (zrange (- Z.of_nat layers) (2 * layers + 1)).

(* np.median of an odd number of values: the middle element of the sorted list *)
Fixpoint qinsert (x : Q) (l : list Q) : list Q :=
  match l with [] => [x] | y :: t => if Qle_bool x y then x :: l else y :: qinsert x t end.
Definition qsort (l : list Q) : list Q := fold_right qinsert [] l.
Definition median (l : list Q) : Q := nth (Nat.div (length l) 2) (qsort l) 0%Q.
Definition qmean (l : list Q) : Q := (fold_right Qplus 0%Q l) / inject_Z (Z.of_nat (length l)).

(* myosin.py:45-50 : mean over the interface's vertices of the median of each vertex's window *)
Definition non_integrated (img : Z -> Z -> Q) (layers : nat) (pixels : list (Z * Z)) : Q :=
  qmean (map (fun p => median (map (fun q => img (fst q) (snd q)) (layer_elements (fst p) (snd p) layers))) pixels).

(* myosin.py:41-44 after the fix: sum over the set of band pixels divided by the polyline length *)
Definition pix_eqb (a b : Z * Z) : bool := Z.eqb (fst a) (fst b) && Z.eqb (snd a) (snd b).
Fixpoint dedup_pix (l : list (Z * Z)) : list (Z * Z) :=
  match l with [] => [] | p :: t => if existsb (pix_eqb p) t then dedup_pix t else p :: dedup_pix t end.
Definition integrated (img : Z -> Z -> Q) (band : list (Z * Z)) (len : Q) : Q :=
  (fold_right Qplus 0%Q (map (fun q => img (fst q) (snd q)) (dedup_pix band))) / len.

(* myosin.py:57-69 : 'average' normalisation and storing in the order given *)
Definition normalise_average (vals : list Q) : list Q := let m := qmean vals in map (fun v => v / m)%Q vals.
