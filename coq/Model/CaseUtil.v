(* CaseUtil.v -- comparison helpers used by generated cases_*.v files (correspondence harness). *)
From Coq Require Import ZArith QArith List Bool PrimFloat.
Import ListNotations.

Definition optZ_eqb (a b : option Z) : bool :=
  match a, b with Some x, Some y => Z.eqb x y | None, None => true | _, _ => false end.
Fixpoint listZ_eqb (a b : list Z) : bool :=
  match a, b with [] , [] => true | x :: s, y :: t => Z.eqb x y && listZ_eqb s t | _, _ => false end.
Fixpoint listlistZ_eqb (a b : list (list Z)) : bool :=
  match a, b with [] , [] => true | x :: s, y :: t => listZ_eqb x y && listlistZ_eqb s t | _, _ => false end.
Fixpoint listQ_eqb (a b : list Q) : bool :=
  match a, b with [] , [] => true | x :: s, y :: t => Qeq_bool x y && listQ_eqb s t | _, _ => false end.
Fixpoint listB_eqb (a b : list bool) : bool :=
  match a, b with [] , [] => true | x :: s, y :: t => Bool.eqb x y && listB_eqb s t | _, _ => false end.
Definition optlistZ_eqb (a b : option (list Z)) : bool :=
  match a, b with Some x, Some y => listZ_eqb x y | None, None => true | _, _ => false end.

(* insertion sort on Z, for set comparisons *)
Fixpoint insZ (x : Z) (l : list Z) : list Z :=
  match l with [] => [x] | y :: t => if Z.leb x y then x :: l else y :: insZ x t end.
Definition sortZ (l : list Z) : list Z := fold_right insZ [] l.
Definition setZ_eqb (a b : list Z) : bool := listZ_eqb (sortZ a) (sortZ b).

(* |a-b| <= tol * (1 + |b|) *)
Definition fclose (tol a b : float) : bool :=
  PrimFloat.leb (PrimFloat.abs (PrimFloat.sub a b)) (PrimFloat.mul tol (PrimFloat.add 1%float (PrimFloat.abs b))).
Fixpoint listF_close (tol : float) (a b : list float) : bool :=
  match a, b with [] , [] => true | x :: s, y :: t => fclose tol x y && listF_close tol s t | _, _ => false end.

(* dict comparisons for the resampling / heap correspondences *)
Fixpoint vs_eqb (a b : list (Z * (Q * Q))) : bool :=
  match a, b with
  | [], [] => true
  | (k, (x, y)) :: s, (k', (x', y')) :: t => Z.eqb k k' && Qeq_bool x x' && Qeq_bool y y' && vs_eqb s t
  | _, _ => false
  end.
Fixpoint es_eqb (a b : list (Z * (Z * Z))) : bool :=
  match a, b with
  | [], [] => true
  | (k, (x, y)) :: s, (k', (x', y')) :: t => Z.eqb k k' && Z.eqb x x' && Z.eqb y y' && es_eqb s t
  | _, _ => false
  end.
Fixpoint cs_eqb (a b : list (Z * list Z)) : bool :=
  match a, b with
  | [], [] => true
  | (k, l) :: s, (k', l') :: t => Z.eqb k k' && listZ_eqb l l' && cs_eqb s t
  | _, _ => false
  end.

(* token comparisons for the session correspondence *)
Definition ttok_eqb (a b : nat * nat * nat) : bool :=
  let '(a1, a2, a3) := a in let '(b1, b2, b3) := b in Nat.eqb a1 b1 && Nat.eqb a2 b2 && Nat.eqb a3 b3.
Definition ottok_eqb (a b : option (nat * nat * nat)) : bool :=
  match a, b with Some x, Some y => ttok_eqb x y | None, None => true | _, _ => false end.
Definition optok_eqb (a b : option (nat * option (nat * nat * nat) * nat)) : bool :=
  match a, b with
  | Some (t, k, c), Some (t', k', c') => Nat.eqb t t' && ottok_eqb k k' && Nat.eqb c c'
  | None, None => true
  | _, _ => false
  end.
