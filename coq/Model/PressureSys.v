(* PressureSys.v -- the pressure step: forsys/pmatrix.py, forsys/general_matrix.py:33-102, forsys/edge.py:148-178,
   forsys/frames.py:163-173.  Curvature is polymorphic in NumOps; the bookkeeping is over Z / nat.  No proofs here. *)
From Coq Require Import ZArith QArith List Bool.
From Forsys Require Import Model.Num Model.PyList.
Import ListNotations.

(* ------------------------------------------------------------------ np.gradient (unit spacing, edge_order 1) *)
Section Curv.
  Context {T : Type} (N : NumOps T).
  Definition half (x : T) : T := div N x (two N).
  (* interior differences (x_{i+1} - x_{i-1}) / 2 along a list, given the previous element *)
  Fixpoint grad_inner (prev : T) (l : list T) : list T :=
    match l with
    | x :: ((y :: _) as t) => half (sub N y prev) :: grad_inner x t
    | [x] => [sub N x prev]                  (* last: backward difference *)
    | [] => []
    end.
  Definition gradient (l : list T) : list T :=
    match l with
    | x0 :: ((x1 :: _) as t) => sub N x1 x0 :: grad_inner x0 t        (* first: forward difference *)
    | _ => l                                                          (* numpy raises for fewer than 2 points *)
    end.
  (* edge.py:148-161 *)
  Definition pow15 (q : T) : T := mul N q (nsqrt N q).
  Definition curvature (xs ys : list T) : list T :=
    let dx := gradient xs in let dy := gradient ys in
    let ddx := gradient dx in let ddy := gradient dy in
    map (fun p => let '(a, b, c, d) := p in
                  div N (sub N (mul N c b) (mul N a d)) (pow15 (add N (mul N a a) (mul N b b))))
        (combine (combine (combine dx dy) ddx) ddy).
  Fixpoint diffs (l : list T) : list T :=
    match l with x :: ((y :: _) as t) => sub N y x :: diffs t | _ => [] end.
  (* edge.py:163-178, normalized=False : trapezoid integral of the curvature along the polyline *)
  Definition total_curvature (xs ys : list T) : T :=
    let k := curvature xs ys in
    let ds := map (fun p => nsqrt N (add N (mul N (fst p) (fst p)) (mul N (snd p) (snd p)))) (combine (diffs xs) (diffs ys)) in
    let mids := map (fun p => half (add N (fst p) (snd p))) (combine (tl k) k) in
    sum N (map (fun p => mul N (fst p) (snd p)) (combine mids ds)).
End Curv.

(* ------------------------------------------------------------------ rows (pmatrix.py:46-73) *)
(* mapping_order: cell id -> column = position in the cells dict *)
Fixpoint position_of (k : Z) (keys : list Z) : option nat :=
  match keys with [] => None | x :: t => if Z.eqb x k then Some 0%nat else option_map S (position_of k t) end.

Fixpoint unit_row (n : nat) (i : nat) (v : Z) : list Z :=
  match n with O => [] | S m => (match i with O => v | _ => 0%Z end) :: unit_row m (pred i) (match i with O => 0%Z | _ => v end) end.
Definition row_add (a b : list Z) : list Z := map (fun p => (fst p + snd p)%Z) (combine a b).

(* own = the interface's own_cells [c1; c2]; sign1 = area sign of c1 ; returns the +-1 row *)
Definition get_row (keys : list Z) (own : list Z) (sign1 : Z) : option (list Z) :=
  match own with
  | [c1; c2] =>
      match position_of c1 keys, position_of c2 keys with
      | Some p1, Some p2 =>
          let n := length keys in
          let s := if (0 <? sign1)%Z then 1%Z else (-1)%Z in
          (* lhs_row[c1_position] = s ; lhs_row[c2_position] = -s  (the second assignment wins if p1 = p2) *)
          Some (map (fun i => if Nat.eqb i p2 then (- s)%Z else if Nat.eqb i p1 then s else 0%Z) (seq 0 n))
      | _, _ => None
      end
  | _ => None       (* ValueError: expecting 2 own cells *)
  end.

(* pmatrix.py:38-41 : columns that are zero in every row *)
Definition removed_columns (ncols : nat) (rows : list (list Z)) : list nat :=
  filter (fun j => forallb (fun r => Z.eqb (nth j r 0%Z) 0%Z) rows) (seq 0 ncols).
Definition drop_columns {A} (removed : list nat) (r : list A) : list A :=
  map snd (filter (fun ip => negb (existsb (Nat.eqb (fst ip)) removed)) (combine (seq 0 (length r)) r)).

(* general_matrix.py:68-72 : for val in mapping_order.values(): if val in removed_columns: solution.insert(val, 0.) *)
Fixpoint insert_at {A} (i : nat) (v : A) (l : list A) : list A :=
  match i, l with
  | O, _ => v :: l
  | S k, x :: t => x :: insert_at k v t
  | S _, [] => [v]            (* list.insert past the end appends *)
  end.
Definition reinsert_zeros {A} (zero : A) (ncols : nat) (removed : list nat) (sol : list A) : list A :=
  fold_left (fun s v => if existsb (Nat.eqb v) removed then insert_at v zero s else s) (seq 0 ncols) sol.

(* frames.py:163-173 : cell.pressure = pressures[mapping[cid]] *)
Definition assign_pressures {A} (dflt : A) (keys : list Z) (pressures : list A) : list (Z * A) :=
  map (fun ik => (snd ik, nth (fst ik) pressures dflt)) (combine (seq 0 (length keys)) keys).

(* general_matrix.py:76-102 : the bordered normal equations  [[A^T A, 1],[1^T, 0]] (p, mu) = (A^T r, 0) *)
Definition qdotp (a b : list Q) : Q := fold_right Qplus 0%Q (map (fun p => fst p * snd p)%Q (combine a b)).
