(* ForceSys.v -- assembly of the force-balance system (forsys/fmatrix.py) and tangent orientation (forsys/edge.py:200-279).
   No proofs here. *)
From Coq Require Import ZArith QArith List Bool.
From Forsys Require Import Model.Num Model.PyList Model.Interfaces.
Import ListNotations.
Open Scope Z_scope.

(* ------------------------------------------------------------------ tangent orientation, any number system *)
Section Tangent.
  Context {T : Type} (N : NumOps T).
  (* np.sign *)
  Definition nsign (x : T) : T := if ltb N (zero N) x then one N else if ltb N x (zero N) then opp N (one N) else zero N.
  (* edge.py:252-264 get_versor_sign : sign of the first segment's components, 0 -> +1 *)
  Definition correct_sign (d : T) : T := if eqb N (nsign d) (zero N) then one N else nsign d.
  (* edge.py:222-228 with the current per-component rule: result_i = correct_sign_i * |w_i| *)
  Definition force_component (w d : T) : T := mul N (correct_sign d) (nabs N w).
  (* vector_from_vertex: u = P - c (vertex minus fitted centre), d = first segment, npts = number of points *)
  Definition vector_from_vertex (npts : nat) (ux uy dx dy : T) : T * T :=
    let wx := opp N uy in let wy := ux in
    if Nat.eqb npts 2
    then (* two-point interface: the segment direction, scaled to |w| *)
         let k := div N (nsqrt N (add N (mul N wx wx) (mul N wy wy))) (nsqrt N (add N (mul N dx dx) (mul N dy dy))) in
         (mul N dx k, mul N dy k)
    else (force_component wx dx, force_component wy dy).
  (* the orientation the property asks for: the tangent on the side of the first segment *)
  Definition oriented_tangent (ux uy dx dy : T) : T * T :=
    let wx := opp N uy in let wy := ux in
    if ltb N (add N (mul N wx dx) (mul N wy dy)) (zero N) then (opp N wx, opp N wy) else (wx, wy).
End Tangent.

(* ------------------------------------------------------------------ which interfaces are used (fmatrix.py:200-223) *)
Definition both_ends_in (deletes : list Z) (e : list Z) : bool := memZ (headZ e) deletes && memZ (lastZ e) deletes.
(* copy of the internal list, then list.remove(e) for each flagged interface: removes the first equal list *)
Fixpoint remove_first_list (e : list Z) (l : list (list Z)) : list (list Z) :=
  match l with [] => [] | x :: t => if listZ_eq x e then t else x :: remove_first_list e t end.
Definition angle_limited_edges (deletes : list Z) (internal : list (list Z)) : list (list Z) :=
  fold_left (fun acc e => if both_ends_in deletes e then remove_first_list e acc else acc) internal internal.

(* ------------------------------------------------------------------ one junction's equations (fmatrix.py:166-198) *)
(* what the frame stores at a junction: for each interface in vertex.own_big_edges order,
   its vertex ids, its external flag, and the versor computed for it at this junction *)
Record incident := mkInc { inc_ids : list Z; inc_external : bool; inc_vx : Q; inc_vy : Q }.

Fixpoint set_nth (l : list Q) (n : nat) (v : Q) : list Q :=
  match l, n with
  | [], _ => []
  | _ :: t, O => v :: t
  | x :: t, S k => x :: set_nth t k v
  end.
Definition zeros (n : nat) : list Q := repeat 0%Q n.

Definition vertex_equation (to_use : list (list Z)) (ncells_v : Z) (incs : list incident) : list Q * list Q :=
  fold_left (fun acc inc =>
               if negb (inc_external inc) && (2 <? ncells_v)
               then match eid_from_vertex to_use (inc_ids inc) with
                    | Some pos => (set_nth (fst acc) pos (inc_vx inc), set_nth (snd acc) pos (inc_vy inc))
                    | None => acc
                    end
               else acc)
            incs (zeros (length to_use), zeros (length to_use)).

(* fmatrix.py:73-98 (after the fix: count columns that received a coefficient pair) *)
Definition count_used (rx ry : list Q) : nat :=
  length (filter (fun p => negb (Qeq_bool (fst p) 0) || negb (Qeq_bool (snd p) 0)) (combine rx ry)).
Definition keep_junction (ignore_four : bool) (rx ry : list Q) : bool :=
  let n := count_used rx ry in (3 <=? n)%nat && (if ignore_four then (n <? 4)%nat else true).

Record fmatrix := mkFM { fm_rows : list (list Q); fm_map : list (Z * Z) (* vid -> row index *) }.

Definition build_matrix (ignore_four : bool) (to_use : list (list Z)) (tj : list Z)
           (ncells : Z -> Z) (incidents : Z -> list incident) : fmatrix :=
  fold_left (fun fm v =>
               let '(rx, ry) := vertex_equation to_use (ncells v) (incidents v) in
               if keep_junction ignore_four rx ry
               then mkFM (fm_rows fm ++ [rx; ry]) (fm_map fm ++ [(v, Z.of_nat (length (fm_rows fm)))])
               else fm)
            tj (mkFM [] []).

(* ------------------------------------------------------------------ augmentation (fmatrix.py:363-430), no external terms *)
Definition add_mean_one (m : list (list Q)) (b : list Q) (ncols : nat) : list (list Q) * list Q :=
  (map (fun r => r ++ [1%Q]) m ++ [repeat 1%Q ncols ++ [0%Q]], b ++ [inject_Z (Z.of_nat ncols)]).

Definition qdot (a b : list Q) : Q := fold_right Qplus 0%Q (map (fun p => fst p * snd p)%Q (combine a b)).
Fixpoint transpose (ncols : nat) (m : list (list Q)) : list (list Q) :=
  match ncols with
  | O => []
  | S k => map (fun r => hd 0%Q r) m :: transpose k (map (fun r => tl r) m)
  end.
Definition add_mean_one_before (m : list (list Q)) (b : list Q) (ncols : nat) : list (list Q) * list Q :=
  let mt := transpose ncols m in
  let mtm := map (fun ci => map (fun cj => qdot ci cj) mt) mt in
  let mtb := map (fun ci => qdot ci b) mt in
  (map (fun r => r ++ [1%Q]) mtm ++ [repeat 1%Q ncols ++ [0%Q]], mtb ++ [inject_Z (Z.of_nat ncols)]).

(* ------------------------------------------------------------------ right-hand side (fmatrix.py:459-490) *)
(* velocity mode: b[row v] = vx, b[row v + 1] = vy for every used junction, zero elsewhere *)
Definition set_velocity_rhs (nrows : nat) (fmap : list (Z * Z)) (vel : Z -> Q * Q) : list Q :=
  fold_left (fun b kv => set_nth (set_nth b (Z.to_nat (snd kv)) (fst (vel (fst kv)))) (S (Z.to_nat (snd kv))) (snd (vel (fst kv))))
            fmap (zeros nrows).

(* ------------------------------------------------------------------ re-alignment (fmatrix.py:492-533) *)
(* get_solution_no_discarded: -1 at the excluded positions, the solution entries in order elsewhere *)
Fixpoint reinsert (deletes : list Z) (internal : list (list Z)) (x : list Q) : list Q :=
  match internal with
  | [] => []
  | e :: t => if both_ends_in deletes e then (-1)%Q :: reinsert deletes t x
              else match x with
                   | [] => []          (* numpy would raise IndexError: excluded by the statements *)
                   | v :: x' => v :: reinsert deletes t x'
                   end
  end.
Definition solution_no_discarded (deletes : list Z) (internal : list (list Z)) (x : list Q) : list Q :=
  if Nat.eqb (length internal) (length x) then x else reinsert deletes internal x.
