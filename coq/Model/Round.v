(* Round.v -- decimal rounding as the code uses it.
   Python's built-in round(x, k) on a Python float x (surface_evolver.py:46,129,130: coordinates and Lagrange multipliers) is
   correctly rounded: the exact value of x is rounded to k decimals, exact ties to the even neighbour, and the result is the
   binary64 nearest to that decimal.  [rhe] is the integer part of that rule on an exact fraction, [round_dec] the rule on Q,
   [py_round] the binary64 function.  numpy's around / ndarray.round (tessellation.py:64-66,133,134; fmatrix.py:255,259,494,498)
   is rint(x * 10^k) / 10^k evaluated in binary64: [np_around]; round() applied to a numpy.float64 is the same function
   (surface_evolver.py:41: the density comes out of a pandas column; tessellation.py:64,65: Qhull's vertices) - it differs from
   Python's on doubles next to a tie (0.54025 -> 0.5402 against 0.5403).  No proofs here. *)
From Coq Require Import ZArith QArith List Bool Uint63 PrimFloat FloatOps SpecFloat.
From Forsys Require Import Model.Resample.
Import ListNotations.
Open Scope Z_scope.

(* nearest integer to n/d for d > 0, exact ties to the even neighbour *)
Definition rhe (n d : Z) : Z :=
  let q := n / d in
  let r := n mod d in
  if 2 * r <? d then q
  else if d <? 2 * r then q + 1
  else if Z.even q then q else q + 1.

Definition pow10 (k : nat) : Z := 10 ^ Z.of_nat k.

(* the numerator of the k-decimal number round(x, k) *)
Definition round_num (k : nat) (x : Q) : Z := rhe (Qnum x * pow10 k) (Zpos (Qden x)).
Definition round_dec (k : nat) (x : Q) : Q := Qmake (round_num k x) (Z.to_pos (pow10 k)).

(* exact value of a finite binary64 as a fraction num / den *)
Definition float_frac (x : float) : option (Z * Z) :=
  match Prim2SF x with
  | S754_zero _ => Some (0, 1)
  | S754_finite s m e =>
      let sm := if s then Z.neg m else Z.pos m in
      Some (if 0 <=? e then (sm * 2 ^ e, 1) else (sm, 2 ^ (- e)))
  | _ => None
  end.

Definition sfloatZ (z : Z) : float := if z <? 0 then PrimFloat.opp (float_of_Z (- z)) else float_of_Z z.

(* Python: round(x, k) for a finite double x, |x| * 10^k < 2^53 *)
Definition py_round (k : nat) (x : float) : float :=
  match float_frac x with
  | Some (n, d) => PrimFloat.div (sfloatZ (rhe (n * pow10 k) d)) (sfloatZ (pow10 k))
  | None => x
  end.

(* C rint under round-to-nearest-even for |y| < 2^51 *)
Definition two52 : float := 0x1p52%float.
Definition rint (y : float) : float :=
  if PrimFloat.ltb y 0%float
  then PrimFloat.opp (PrimFloat.sub (PrimFloat.add (PrimFloat.opp y) two52) two52)
  else PrimFloat.sub (PrimFloat.add y two52) two52.

(* numpy: np.around(x, k), ndarray.round(k) for k > 0 *)
Definition np_around (k : nat) (x : float) : float :=
  PrimFloat.div (rint (PrimFloat.mul x (sfloatZ (pow10 k)))) (sfloatZ (pow10 k)).

(* tessellation.py:64-66,124-140: the lattice vertex made from corner p of the ridge p -> q (first = true) or from corner q (first = false):
   x = around(linspace(round(px, 3), round(qx, 3), 2), 3); y = around(line_eq(p, q, x), 3) *)
Definition ridge_vertex (first : bool) (p q : float * float) : float * float :=
  let x0 := np_around 3 (fst p) in                                 (* round() of a numpy.float64 is numpy's rounding *)
  let x1 := np_around 3 (fst q) in
  let x := np_around 3 (if first then x0 else x1) in
  let p0 := (np_around 3 (fst p), np_around 3 (snd p)) in
  let p1 := (np_around 3 (fst q), np_around 3 (snd q)) in
  let y :=
    if PrimFloat.eqb (fst p1) (fst p0)
    then (if first then snd p0 else snd p1)                       (* np.linspace(p0y, p1y, 2): exact end values *)
    else PrimFloat.add (snd p0) (PrimFloat.mul (PrimFloat.div (PrimFloat.sub (snd p1) (snd p0)) (PrimFloat.sub (fst p1) (fst p0)))
                                               (PrimFloat.sub x (fst p0))) in
  (x, np_around 3 y).

(* the same construction in exact arithmetic (for the theorems) *)
Definition ridge_vertex_Q (first : bool) (p q : Q * Q) : Q * Q :=
  let x0 := round_dec 3 (fst p) in
  let x1 := round_dec 3 (fst q) in
  let x := round_dec 3 (if first then x0 else x1) in
  let p0 := (round_dec 3 (fst p), round_dec 3 (snd p)) in
  let p1 := (round_dec 3 (fst q), round_dec 3 (snd q)) in
  let y :=
    if Qeq_bool (fst p1) (fst p0)
    then (if first then snd p0 else snd p1)
    else (snd p0 + ((snd p1 - snd p0) / (fst p1 - fst p0)) * (x - fst p0))%Q in
  (x, round_dec 3 y).

(* helpers for the generated case files *)
Definition fpair_eqb (a b : float * float) : bool := PrimFloat.eqb (fst a) (fst b) && PrimFloat.eqb (snd a) (snd b).
Definition ridge_ok (t : (float * float) * (float * float) * ((float * float) * (float * float))) : bool :=
  let '(p, q, (a, b)) := t in fpair_eqb (ridge_vertex true p q) a && fpair_eqb (ridge_vertex false p q) b.
(* a parsed numeric field: ((numerator, denominator) of the token's double, numerator of the stored k-decimal number) *)
Definition field_ok (k : nat) (t : Z * Z * Z) : bool := let '(n, d, m) := t in rhe (n * pow10 k) d =? m.
(* the stored double itself *)
Definition field_float_ok (k : nat) (t : float * float) : bool := PrimFloat.eqb (py_round k (fst t)) (snd t).
Definition field_np_ok (k : nat) (t : float * float) : bool := PrimFloat.eqb (np_around k (fst t)) (snd t).
