(* SEParse.v -- token-level model of forsys/surface_evolver.py (lines are already split on whitespace by str.split()).
   No proofs here. *)
From Coq Require Import ZArith List Bool String Ascii.
Import ListNotations.
Open Scope list_scope.

(* "*/"%string in token *)
Fixpoint contains_close (s : string) : bool :=
  match s with
  | EmptyString => false
  | String "*"%char (String "/"%char _) => true
  | String _ t => contains_close t
  end.
Definition last_tok (l : list string) : string := last l ""%string.
Definition drop_last {A} (n : nat) (l : list A) : list A := firstn (List.length l - n) l.

(* surface_evolver.py:186-208 : the three-state continuation machine over the lines of the faces section.
   state: ids so far, loops so far, current loop, first flag *)
Record fstate := mkF { f_ids : list string; f_loops : list (list string); f_cur : list string; f_first : bool }.
Definition face_step (st : fstate) (line : list string) : fstate :=
  let lt := last_tok line in
  if f_first st && negb (contains_close lt)
  then mkF (f_ids st ++ [hd ""%string line]) (f_loops st) (f_cur st ++ drop_last 1 (tl line)) false
  else if String.eqb lt "\"%string && negb (f_first st)
  then mkF (f_ids st) (f_loops st) (f_cur st ++ drop_last 1 line) (f_first st)
  else if contains_close lt
  then if f_first st
       then mkF (f_ids st ++ [hd ""%string line]) (f_loops st ++ [f_cur st ++ drop_last 2 (tl line)]) [] true
       else mkF (f_ids st) (f_loops st ++ [f_cur st ++ drop_last 2 line]) [] true
  else st.
Definition parse_faces (lines : list (list string)) : list string * list (list string) :=
  let st := fold_left face_step lines (mkF [] [] [] true) in (f_ids st, f_loops st).

(* an independent serialisation of one face: id, the loop cut into non-empty chunks, the two trailer tokens *)
Definition serialise_face (id : string) (chunks : list (list string)) (t1 t2 : string) : list (list string) :=
  match chunks with
  | [] => [[id; t1; t2]]
  | [c] => [id :: c ++ [t1; t2]]
  | c :: rest => (id :: c ++ ["\"%string]) :: (map (fun ch => ch ++ ["\"%string]) (removelast rest)) ++ [last rest [] ++ [t1; t2]]
  end.

(* surface_evolver.py:159-161 : density at token 3 (after the fix: only if the line is long enough), else 1 *)
Definition edge_has_density (line : list string) : bool :=
  Nat.ltb 4 (List.length line) && String.eqb (nth 3 line ""%string) "density"%string.

(* surface_evolver.py:43-47 : tail vertex of every signed edge *)
Definition tail_vertex (edges : list (Z * (Z * Z))) (e : Z) : option Z :=
  match find (fun kv => Z.eqb (fst kv) (Z.abs e)) edges with
  | Some (_, (v1, v2)) => Some (if (0 <? e)%Z then v1 else v2)
  | None => None
  end.
Definition cell_cycle (edges : list (Z * (Z * Z))) (loop : list Z) : list (option Z) := map (tail_vertex edges) loop.

(* surface_evolver.py:49-62 : vertices in no cell are dropped together with every edge ending at them *)
Definition in_some_cell (cells : list (list Z)) (v : Z) : bool := existsb (fun c => existsb (Z.eqb v) c) cells.
Definition kept_vertices (vids : list Z) (cells : list (list Z)) : list Z := filter (in_some_cell cells) vids.
Definition kept_edges (edges : list (Z * (Z * Z))) (cells : list (list Z)) : list (Z * (Z * Z)) :=
  filter (fun kv => in_some_cell cells (fst (snd kv)) && in_some_cell cells (snd (snd kv))) edges.

(* the other end of a signed edge, and what it means for a face's loop to be closed head to tail *)
Definition head_vertex (edges : list (Z * (Z * Z))) (e : Z) : option Z := tail_vertex edges (- e).
Fixpoint head_to_tail (edges : list (Z * (Z * Z))) (first : Z) (loop : list Z) : bool :=
  match loop with
  | [] => true
  | e :: t => match head_vertex edges e, tail_vertex edges (match t with [] => first | e' :: _ => e' end) with
              | Some h, Some tl => Z.eqb h tl && head_to_tail edges first t
              | _, _ => false
              end
  end.
Definition closed_loop (edges : list (Z * (Z * Z))) (loop : list Z) : bool :=
  match loop with [] => true | e :: _ => head_to_tail edges e loop end.
