(* StressGrid.v -- the grid of stress_tensor.stress_tensor (stress_tensor.py:88-125): bin edges as np.histogram returns them
   (np.linspace(min, max, grid+1): i * step + min, the last one set to max; min - 0.5, max + 0.5 when all centres coincide), grid
   centres, the cells selected by a grid centre (squared distance of the cell centre to it <= min_distance^2), the interfaces selected
   with them (one of their two cells is selected; -1 stands for "no second cell"), and the tensor of every grid cell through
   Model/Stress.v.  Polymorphic in NumOps.  No proofs here. *)
From Coq Require Import ZArith List Bool.
From Forsys Require Import Model.Num Model.Stress.
Import ListNotations.

Section Grid.
  Context {T : Type} (N : NumOps T).
  Definition half : T := div N (one N) (two N).

  Definition minT (l : list T) (d : T) : T := fold_left (fun m x => if ltb N x m then x else m) l d.
  Definition maxT (l : list T) (d : T) : T := fold_left (fun m x => if ltb N m x then x else m) l d.
  (* _get_outer_edges *)
  Definition outer_edges (l : list T) : T * T :=
    match l with
    | [] => (zero N, one N)
    | x :: r => let lo := minT r x in let hi := maxT r x in
                if eqb N lo hi then (sub N lo half, add N hi half) else (lo, hi)
    end.
  (* np.linspace(lo, hi, g + 1) *)
  Definition bin_edges (lo hi : T) (g : nat) : list T :=
    let step := div N (sub N hi lo) (ofZ N (Z.of_nat g)) in
    map (fun i => if Nat.eqb i g then hi else add N (mul N (ofZ N (Z.of_nat i)) step) lo) (seq 0 (S g)).
  Definition bin_centres (edges : list T) : list T :=
    map (fun p => div N (add N (fst p) (snd p)) (two N)) (combine edges (tl edges)).

  (* a cell: (id, (xcm, ycm), (area, pressure)); an interface: ((cell1, cell2), (tension, (vx, vy, norm))) *)
  Definition cellrec : Type := Z * (T * T) * (T * T).
  Definition edgerec : Type := (Z * Z) * (T * (T * T * T)).
  Definition dist2 (cx cy : T) (c : cellrec) : T := add N (sq N (sub N cx (fst (snd (fst c))))) (sq N (sub N cy (snd (snd (fst c))))).
  Definition in_disc (md2 cx cy : T) (c : cellrec) : bool := negb (ltb N md2 (dist2 cx cy c)).
  Definition select_cells (md2 cx cy : T) (cells : list cellrec) : list cellrec := filter (in_disc md2 cx cy) cells.
  Definition memZ (k : Z) (l : list Z) : bool := existsb (Z.eqb k) l.
  Definition touches (ids : list Z) (e : edgerec) : bool := memZ (fst (fst e)) ids || memZ (snd (fst e)) ids.
  Definition select_edges (ids : list Z) (edges : list edgerec) : list edgerec := filter (touches ids) edges.

  Definition grid_cell_sigma (md2 cx cy : T) (cells : list cellrec) (edges : list edgerec) : T * T * T :=
    let sel := select_cells md2 cx cy cells in
    sigma N (map snd sel) (map snd (select_edges (map (fun c => fst (fst c)) sel) edges)).

  (* the whole analysis: ((row, column), tensor) in the order of the two loops, the grid centres, the bin edges *)
  Definition stress_grid (g : nat) (md2 : T) (cells : list cellrec) (edges : list edgerec)
    : list ((nat * nat) * (T * T * T)) * (list T * list T) * (list T * list T) :=
    let '(xlo, xhi) := outer_edges (map (fun c => fst (snd (fst c))) cells) in
    let '(ylo, yhi) := outer_edges (map (fun c => snd (snd (fst c))) cells) in
    let xb := bin_edges xlo xhi g in let yb := bin_edges ylo yhi g in
    let xc := bin_centres xb in let yc := bin_centres yb in
    (concat (map (fun rx => map (fun cy => ((fst rx, fst cy), grid_cell_sigma md2 (snd rx) (snd cy) cells edges))
                                (combine (seq 0 g) yc))
                 (combine (seq 0 g) xc)),
     (xc, yc), (xb, yb)).
End Grid.

(* helpers for the generated case files (binary64 instance) *)
From Coq Require Import PrimFloat.
From Forsys Require Import Model.CaseUtil.
Definition listF_same (a b : list float) : bool :=
  Nat.eqb (length a) (length b) && forallb (fun p => PrimFloat.eqb (fst p) (snd p)) (combine a b).
Definition sig_close (tol : float) (a b : float * float * float) : bool :=
  let '(axx, axy, ayy) := a in let '(bxx, bxy, byy) := b in fclose tol axx bxx && fclose tol axy bxy && fclose tol ayy byy.
Definition grid_matches (tol : float) (g : nat) (md2 : float) (cells : list (cellrec (T := float))) (edges : list (edgerec (T := float)))
  (xb yb xc yc : list float) (sig : list (float * float * float)) : bool :=
  let '(s, (mxc, myc), (mxb, myb)) := stress_grid FOps g md2 cells edges in
  listF_same mxb xb && listF_same myb yb && listF_same mxc xc && listF_same myc yc &&
  Nat.eqb (length s) (length sig) && forallb (fun p => sig_close tol (snd (fst p)) (snd p)) (combine s sig).
