(* RegionFilter.v -- tessellation.remove_infinite_regions / distance_matrix (tessellation.py:96-118, 237-244): a region (list of Qhull
   vertex indices) that is not empty and has no corner at infinity (-1) is dropped when the largest distance between two of its corners
   exceeds max_distance.  Distances are compared squared (exact over Q; the float comparison agrees except on a tie).  The deletions are
   list.remove calls, as in the source.  No proofs here. *)
From Coq Require Import ZArith QArith List Bool.
From Forsys Require Import Model.PyList Model.ForceSys.
Import ListNotations.
Open Scope Z_scope.

Definition qsqdist (a b : Q * Q) : Q := ((fst a - fst b) * (fst a - fst b) + (snd a - snd b) * (snd a - snd b))%Q.
Definition qltb (a b : Q) : bool := negb (Qle_bool b a).
(* np.max(distance_matrix(corners)) > max_distance *)
Definition region_wide (verts : Z -> Q * Q) (max2 : Q) (c : list Z) : bool :=
  existsb (fun i => existsb (fun j => qltb max2 (qsqdist (verts i) (verts j))) c) c.
Definition deletable (verts : Z -> Q * Q) (max2 : Q) (c : list Z) : bool :=
  negb (Nat.eqb (length c) 0) && negb (memZ (-1) c) && region_wide verts max2 c.
Definition remove_infinite_regions (verts : Z -> Q * Q) (max2 : Q) (regions : list (list Z)) : list (list Z) :=
  fold_left (fun acc c => if deletable verts max2 c then remove_first_list c acc else acc) regions regions.
(* the regions that become cells afterwards (tessellation.py:57) *)
Definition cell_regions (verts : Z -> Q * Q) (max2 : Q) (regions : list (list Z)) : list (list Z) :=
  filter (fun c => negb (Nat.eqb (length c) 0) && negb (memZ (-1) c)) (remove_infinite_regions verts max2 regions).
