(* CircleFit.v -- the residual vector that virtual_edges.dlite_circle_method (virtual_edges.py:285-307) hands to scipy's leastsq:
   objective_f(c) = distances - distances.mean(), distances_i = sqrt((x_i - c_x)^2 + (y_i - c_y)^2).
   Polymorphic in NumOps (R for theorems, PrimFloat for the correspondence).  No proofs here. *)
From Coq Require Import ZArith List Bool.
From Forsys Require Import Model.Num.
Import ListNotations.

Section Fit.
  Context {T : Type} (N : NumOps T).
  Definition cdist (c p : T * T) : T :=
    nsqrt N (add N (mul N (sub N (fst p) (fst c)) (sub N (fst p) (fst c))) (mul N (sub N (snd p) (snd c)) (sub N (snd p) (snd c)))).
  Definition distances (c : T * T) (pts : list (T * T)) : list T := map (cdist c) pts.
  Definition mean (l : list T) : T := div N (sum N l) (ofZ N (Z.of_nat (length l))).
  Definition objective (c : T * T) (pts : list (T * T)) : list T :=
    let d := distances c pts in let m := mean d in map (fun x => sub N x m) d.
  (* what leastsq minimises *)
  Definition cost (c : T * T) (pts : list (T * T)) : T := sum N (map (fun x => mul N x x) (objective c pts)).
End Fit.

(* ---- calculate_circle_center, the shortcut for collinear points (virtual_edges.py:259-266): with more than two points, a chord of
   positive length and every offset (cross product with the chord) within tol x chord^2 (tol = 1e-12 in the source), the centre is put
   far away on the normal through the mean point: (mean x - far * dy, mean y + far * dx), far = 1e8. *)
Section Shortcut.
  Context {T : Type} (N : NumOps T).
  Definition nleb (a b : T) : bool := negb (ltb N b a).
  Definition chord (pts : list (T * T)) : T * T :=
    match pts with [] => (zero N, zero N) | p0 :: _ => let pl := last pts p0 in (sub N (fst pl) (fst p0), sub N (snd pl) (snd p0)) end.
  Definition chord2 (pts : list (T * T)) : T := let d := chord pts in add N (mul N (fst d) (fst d)) (mul N (snd d) (snd d)).
  Definition offsets (pts : list (T * T)) : list T :=
    match pts with [] => [] | p0 :: _ =>
      let d := chord pts in map (fun p => sub N (mul N (sub N (fst p) (fst p0)) (snd d)) (mul N (sub N (snd p) (snd p0)) (fst d))) pts end.
  Definition shortcut_taken (tol : T) (pts : list (T * T)) : bool :=
    Nat.ltb 2 (length pts) && ltb N (zero N) (chord2 pts) && forallb (fun o => nleb (nabs N o) (mul N tol (chord2 pts))) (offsets pts).
  Definition far_centre (far : T) (pts : list (T * T)) : T * T :=
    let d := chord pts in
    (sub N (mean N (map fst pts)) (mul N far (snd d)), add N (mean N (map snd pts)) (mul N far (fst d))).
End Shortcut.
