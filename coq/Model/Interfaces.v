(* Interfaces.v -- interface ("big edge") decomposition and classification.
   forsys/virtual_edges.py:14-46,125-141 ; forsys/frames.py:39-72,104-120,189-203,254-272 ;
   forsys/edge.py:126-146.   No proofs here. *)
From Coq Require Import ZArith List Bool.
From Forsys Require Import Model.PyList.
Import ListNotations.
Open Scope Z_scope.

(* virtual_edges.py:43-46  np.split(ids, np.where(flags)[0]) :
   first piece = prefix before the first junction (possibly empty), every later piece starts at a junction *)
Fixpoint get_partition (junc : Z -> bool) (l : list Z) : list (list Z) :=
  match l with
  | [] => [[]]
  | x :: t => let r := get_partition junc t in
              if junc x then [] :: (x :: hd [] r) :: tl r
              else (x :: hd [] r) :: tl r
  end.

(* new_edges = [partitioned[ii] ++ [partitioned[(ii+1) % len][0]]] *)
Definition close_pieces (q : list (list Z)) : list (list Z) :=
  let firsts := map headZ q in
  map (fun pn => fst pn ++ [snd pn]) (combine q (rot1 firsts)).

(* virtual_edges.py:19-34 for one cell *)
Definition cell_interfaces (junc : Z -> bool) (ids : list Z) : list (list Z) :=
  let p := get_partition junc ids in
  let p2 := match ids with
            | [] => p
            | x :: _ => if junc x then p else get_partition junc (concat (tl p) ++ hd [] p)
            end in
  close_pieces (tl p2).

(* virtual_edges.py:36-40 *)
Definition dedup_step (earr : list (list Z)) (e : list Z) : list (list Z) :=
  if mem_list (rev e) earr || mem_list e earr then earr else earr ++ [e].
Definition dedup_ifaces (l : list (list Z)) : list (list Z) := fold_left dedup_step l [].

Definition create_edges_new (junc : Z -> bool) (cells : list (Z * list Z)) : list (list Z) :=
  dedup_ifaces (concat (map (fun c => cell_interfaces junc (snd c)) cells)).

(* ------------------------------------------------------------------ classification *)
Section Classify.
  Variable ncells : Z -> Z.          (* len(vertex.ownCells) *)

  (* virtual_edges.py:133-141 get_border_edge *)
  Definition is_border (e : list Z) : bool := existsb (fun v => ncells v <? 2) e.
  Definition get_border_edge (earr : list (list Z)) : list (list Z) := filter is_border earr.

  Definition end_junction (e : list Z) : bool := (2 <? ncells (headZ e)) || (2 <? ncells (lastZ e)).

  (* frames.py:52-63 : external_edges_id through list.index, then the two comprehensions *)
  Definition external_edges_id (earr : list (list Z)) : list nat :=
    flat_map (fun e => match index_list e earr with Some i => [i] | None => [] end) (get_border_edge earr).
  Fixpoint enumerate_from {A} (i : nat) (l : list A) : list (nat * A) :=
    match l with [] => [] | x :: t => (i, x) :: enumerate_from (S i) t end.
  Definition frame_internal (earr : list (list Z)) : list (nat * list Z) :=
    filter (fun ie => negb (existsb (Nat.eqb (fst ie)) (external_edges_id earr)) && end_junction (snd ie))
           (enumerate_from 0 earr).

  (* edge.py:142-146 BigEdge.external *)
  Definition big_edge_external (e : list Z) : bool :=
    existsb (fun v => ncells v <? 2) e || negb (end_junction e).

  (* frames.py:189-203 get_tensions(with_border=False): ids whose BigEdge is not external *)
  Definition tension_table_ids (earr : list (list Z)) : list nat :=
    map fst (filter (fun ie => negb (big_edge_external (snd ie))) (enumerate_from 0 earr)).
End Classify.

(* edge.py:138-141 own_cells : middle vertex, or the end-point intersection for two-point interfaces *)
Definition own_cells (own : Z -> list Z) (e : list Z) : list Z :=
  match e with
  | [a; b] => inter (own a) (own b)
  | _ => own (nth (Nat.div (length e - 1) 2) e 0)
  end.

(* edge.py:134-136 edges : list(set(a.ownEdges) & set(b.ownEdges))[0] for consecutive vertices.  Which element of a Python set comes
   first is an implementation detail of CPython's hashing; the model keeps the whole intersection (the candidates) and the
   correspondence requires the implementation's choice to be one of them -- equality whenever two vertices share one mesh edge *)
Fixpoint iface_edge_candidates (own_edges : Z -> list Z) (e : list Z) : list (list Z) :=
  match e with
  | a :: ((b :: _) as t) => inter (own_edges a) (own_edges b) :: iface_edge_candidates own_edges t
  | _ => []
  end.
Definition iface_edges (own_edges : Z -> list Z) (e : list Z) : list (option Z) :=
  map (@hd_error Z) (iface_edge_candidates own_edges e).

(* virtual_edges.py:125-130 eid_from_vertex : first interface sharing >= 2 ids *)
Fixpoint eid_from_vertex (earr : list (list Z)) (vbel : list Z) : option nat :=
  match earr with
  | [] => None
  | e :: t => if (2 <=? length (inter e vbel))%nat then Some 0%nat else option_map S (eid_from_vertex t vbel)
  end.
