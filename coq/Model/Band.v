(* Band.v -- the layered band of pixels around an interface polyline: myosin.py get_interpolation / walk_two_vertices (myosin.py:91-131).
   The walk takes one position per integer step along the axis of larger extent, from the first vertex (inclusive) to the second
   (exclusive); the other coordinate is int(interp1d([a0, a1], [b0, b1])(value)).  For integer arrays scipy delegates to numpy.interp:
   the end values exactly at the end abscissae, slope * (x - x_lo) + y_lo in binary64 in between, with x_lo the smaller abscissa.
   [walk_positions] is generic in the interpolation (for the theorems); [np_interp] is the binary64 instance.  No proofs here. *)
From Coq Require Import ZArith List Bool Uint63 PrimFloat.
From Forsys Require Import Model.Resample Model.Myosin.
Import ListNotations.
Open Scope Z_scope.

Definition sfloat (z : Z) : float := if z <? 0 then PrimFloat.opp (float_of_Z (- z)) else float_of_Z z.
(* int(np.interp(v, [x0, x1] sorted, ...)) for x0 <> x1 *)
Definition np_interp (x0 y0 x1 y1 v : Z) : Z :=
  let '(xl, yl, xh, yh) := if x0 <? x1 then (x0, y0, x1, y1) else (x1, y1, x0, y0) in
  if v =? xl then yl else if v =? xh then yh
  else float_trunc (PrimFloat.add (PrimFloat.mul (PrimFloat.div (PrimFloat.sub (sfloat yh) (sfloat yl)) (PrimFloat.sub (sfloat xh) (sfloat xl)))
                                                 (PrimFloat.sub (sfloat v) (sfloat xl))) (sfloat yl)).

Section Walk.
  Variable interp : Z -> Z -> Z -> Z -> Z -> Z.        (* x0 y0 x1 y1 v *)
  (* range(a, b, +-1) *)
  Definition steps (a b : Z) : list Z :=
    if a <? b then map (fun k => a + Z.of_nat k) (seq 0 (Z.to_nat (b - a))) else map (fun k => a - Z.of_nat k) (seq 0 (Z.to_nat (a - b))).
  Definition walk_positions (v0 v1 : Z * Z) : list (Z * Z) :=
    let dx := Z.abs (fst v0 - fst v1) in let dy := Z.abs (snd v0 - snd v1) in
    if dy <? dx
    then map (fun x => (x, interp (fst v0) (snd v0) (fst v1) (snd v1) x)) (steps (fst v0) (fst v1))
    else map (fun y => (interp (snd v0) (fst v0) (snd v1) (fst v1) y, y)) (steps (snd v0) (snd v1)).
  Definition walk_band (layers : nat) (v0 v1 : Z * Z) : list (Z * Z) :=
    flat_map (fun p => layer_elements (fst p) (snd p) layers) (walk_positions v0 v1).
  Fixpoint polyline_band (layers : nat) (vs : list (Z * Z)) : list (Z * Z) :=
    match vs with
    | a :: ((b :: _) as t) => walk_band layers a b ++ polyline_band layers t
    | _ => []
    end.
End Walk.

Definition band_of (layers : nat) (vs : list (Z * Z)) : list (Z * Z) := dedup_pix (polyline_band np_interp layers vs).
Definition pixset_eqb (a b : list (Z * Z)) : bool :=
  forallb (fun p => existsb (pix_eqb p) b) a && forallb (fun p => existsb (pix_eqb p) a) b.
