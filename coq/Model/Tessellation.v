(* Tessellation.v -- lattice construction from Voronoi regions (forsys/tessellation.py:10-93,139-209), after the Qhull oracle and
   after the three-decimal rounding: a region is the list of its rounded corner points.  No proofs here. *)
From Coq Require Import ZArith QArith List Bool.
From Forsys Require Import Model.Num Model.Geometry.
Import ListNotations.
Open Scope Z_scope.

Definition pt := (Q * Q)%type.
Definition pt_eqb (a b : pt) : bool := Qeq_bool (fst a) (fst b) && Qeq_bool (snd a) (snd b).

(* tessellation.py:167-186 get_vertex_number : id of the first stored vertex with these coordinates, else max id + 1 (1 when empty) *)
Fixpoint find_vertex (v : pt) (d : list (Z * pt)) : option Z :=
  match d with [] => None | (k, p) :: t => if pt_eqb p v then Some k else find_vertex v t end.
Definition max_key {A} (d : list (Z * A)) : Z := fold_left (fun m kv => Z.max m (fst kv)) d 0.
Definition get_vertex_number (v : pt) (d : list (Z * pt)) : Z * list (Z * pt) :=
  match find_vertex v d with
  | Some k => (k, d)
  | None => let k := (if (0 <? Z.of_nat (length d)) then max_key d + 1 else 1) in (k, d ++ [(k, v)])
  end.

(* tessellation.py:188-209 get_enum : +id for a stored edge, -id for its reverse, else a new id *)
Definition pair_eqb (a b : Z * Z) : bool := Z.eqb (fst a) (fst b) && Z.eqb (snd a) (snd b).
Fixpoint find_edge (e : Z * Z) (d : list (Z * (Z * Z))) : option Z :=
  match d with [] => None | (k, p) :: t => if pair_eqb p e then Some k else find_edge e t end.
Definition get_enum (e : Z * Z) (d : list (Z * (Z * Z))) : Z * list (Z * (Z * Z)) :=
  match find_edge e d with
  | Some k => (k, d)
  | None => match find_edge (snd e, fst e) d with
            | Some k => (- k, d)
            | None => let k := (if (0 <? Z.of_nat (length d)) then max_key d + 1 else 1) in (k, d ++ [(k, e)])
            end
  end.

Record tstate := mkT { tv : list (Z * pt); te : list (Z * (Z * Z)); tc : list (Z * list Z); tnum : Z }.

(* tessellation.py:56-91 for one region (already closed: the first corner is repeated at the end by c.append(c[0])) *)
Fixpoint region_edges (corners : list pt) (vs : list (Z * pt)) (es : list (Z * (Z * Z)))
  : list Z * list Z * list (Z * pt) * list (Z * (Z * Z)) :=
  match corners with
  | a :: ((b :: _) as t) =>
      let '(n1, vs1) := get_vertex_number a vs in
      let '(n2, vs2) := get_vertex_number b vs1 in
      let '(en, es1) := get_enum (n1, n2) es in
      let '(ens, vlist, vs3, es2) := region_edges t vs2 es1 in
      (en :: ens, n1 :: n2 :: vlist, vs3, es2)
  | _ => ([], [], vs, es)
  end.

Definition add_region (st : tstate) (corners : list pt) : tstate :=
  let closed := corners ++ firstn 1 corners in
  let '(ens, vlist, vs', es') := region_edges closed (tv st) (te st) in
  let coords := map (fun k => match find (fun kv => Z.eqb (fst kv) k) vs' with Some (_, p) => p | None => (0%Q, 0%Q) end) vlist in
  let sgn := area_sign QOps coords in                       (* get_cell_area_sign on the doubled vertex list *)
  mkT vs' es' (tc st ++ [(- (tnum st) * sgn, ens)]) (tnum st + 1).

Definition lattice_elements (regions : list (list pt)) : tstate := fold_left add_region regions (mkT [] [] [] 1).

(* tessellation.py:10-30 create_lattice : cell vertices from signed edges, reversed when the key is negative *)
Definition edge_vertex (es : list (Z * (Z * Z))) (e : Z) : Z :=
  match find (fun kv => Z.eqb (fst kv) (Z.abs e)) es with
  | Some (_, (a, b)) => if (0 <? e) then a else b
  | None => 0
  end.
Definition lattice_cells (st : tstate) : list (Z * list Z) :=
  map (fun kc => let vl := map (edge_vertex (te st)) (snd kc) in (Z.abs (fst kc), if (fst kc <? 0) then rev vl else vl)) (tc st).
