(* Heap.v -- the registration discipline that keeps vertices and mesh edges / cells consistent
   (forsys/vertex.py add_edge/remove_edge/add_cell/remove_cell, forsys/edge.py:29-88 SmallEdge.__post_init__/__del__/replace_vertex,
   forsys/cell.py:34-48 Cell.__post_init__/__del__).  Both disciplines are the same machine: "items" (mesh edges with two ends, or
   cells with a vertex list) register their id on their vertices.  No proofs here. *)
From Coq Require Import ZArith List Bool.
Import ListNotations.
Open Scope Z_scope.

Record hstate := mkH {
  items : list (Z * list Z);      (* id -> the vertices the item is attached to (ends of an edge / cycle of a cell) *)
  own : Z -> list Z               (* vertex id -> ownEdges (resp. ownCells) *)
}.
Definition hinit : hstate := mkH [] (fun _ => []).

Definition upd (f : Z -> list Z) (k : Z) (v : list Z) : Z -> list Z := fun i => if Z.eqb i k then v else f i.
Definition memb (x : Z) (l : list Z) : bool := existsb (Z.eqb x) l.
Definition has_item (s : hstate) (k : Z) : bool := existsb (fun kv => Z.eqb (fst kv) k) (items s).
Definition get_item (s : hstate) (k : Z) : option (list Z) := option_map snd (find (fun kv => Z.eqb (fst kv) k) (items s)).

(* Vertex.add_edge / add_cell : append unless already listed *)
Definition register (f : Z -> list Z) (id : Z) (v : Z) : Z -> list Z := if memb id (f v) then f else upd f v (f v ++ [id]).
(* the guarded removal of SmallEdge.__del__ (Cell.__del__ removes unconditionally; on consistent states they coincide) *)
Definition unregister (f : Z -> list Z) (id : Z) (v : Z) : Z -> list Z := upd f v (remove Z.eq_dec id (f v)).

Inductive hop :=
| Create (id : Z) (vs : list Z)        (* SmallEdge(id, v1, v2) / Cell(id, vertices) stored under its id *)
| Delete (id : Z)                      (* del dict[id] with the last reference: __del__ runs *)
| Replace (id vold vnew : Z).          (* SmallEdge.replace_vertex / Cell.replace_vertex (when vnew is not yet in the item) *)

Definition hstep (s : hstate) (o : hop) : hstate :=
  match o with
  | Create id vs =>
      if has_item s id then s      (* re-using a live id is not done by any construction path; modelled as no-op *)
      else mkH (items s ++ [(id, vs)]) (fold_left (fun f v => register f id v) vs (own s))
  | Delete id =>
      match get_item s id with
      | Some vs => mkH (filter (fun kv => negb (Z.eqb (fst kv) id)) (items s)) (fold_left (fun f v => unregister f id v) vs (own s))
      | None => s                  (* KeyError *)
      end
  | Replace id vold vnew =>
      match get_item s id with
      | Some vs =>
          if memb vold vs && negb (memb vnew vs)
          then mkH (map (fun kv => if Z.eqb (fst kv) id then (id, map (fun v => if Z.eqb v vold then vnew else v) vs) else kv) (items s))
                   (register (unregister (own s) id vold) id vnew)
          else s
      | None => s
      end
  end.
Definition hrun (ops : list hop) : hstate := fold_left hstep ops hinit.

(* clause (1)/(2) of the property: a vertex lists an item exactly when the item exists and is attached to it *)
Definition consistent_b (s : hstate) (vertices : list Z) : bool :=
  forallb (fun v => forallb (fun id => match get_item s id with Some vs => memb v vs | None => false end) (own s v)) vertices &&
  forallb (fun kv => forallb (fun v => memb (fst kv) (own s v)) (snd kv)) (items s).
