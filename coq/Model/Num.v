(* Num.v -- one definition, three number systems (DESIGN 2.3).
   Numeric model functions take a record [NumOps T]; they are instantiated at
   R (theorems), Q (exact, executable correspondence) and PrimFloat (tolerance
   correspondence for paths through sqrt / division by non-dyadics). *)
From Coq Require Import Reals QArith ZArith List Bool.
From Coq Require Import PrimFloat Uint63.
Import ListNotations.

Record NumOps (T : Type) := mkNum {
  zero : T; one : T;
  add : T -> T -> T; sub : T -> T -> T; mul : T -> T -> T; div : T -> T -> T;
  opp : T -> T; nsqrt : T -> T;
  ltb : T -> T -> bool;    (* strict *)
  eqb : T -> T -> bool;
  ofZ : Z -> T
}.
Arguments zero {T}. Arguments one {T}. Arguments add {T}. Arguments sub {T}.
Arguments mul {T}. Arguments div {T}. Arguments opp {T}. Arguments nsqrt {T}.
Arguments ltb {T}. Arguments eqb {T}. Arguments ofZ {T}.

Definition Rltb (a b : R) : bool := if Rlt_dec a b then true else false.
Definition Reqb (a b : R) : bool := if Req_EM_T a b then true else false.

Definition ROps : NumOps R :=
  mkNum R 0%R 1%R Rplus Rminus Rmult Rdiv Ropp R_sqrt.sqrt Rltb Reqb IZR.

(* Q has no square root: the Q instance is only used on sqrt-free paths; the
   placeholder below returns its argument and no theorem is stated about it. *)
Definition Qltb (a b : Q) : bool := negb (Qle_bool b a).
Definition QOps : NumOps Q :=
  mkNum Q 0%Q 1%Q Qplus Qminus Qmult Qdiv Qopp (fun x => x) Qltb Qeq_bool inject_Z.

Definition Fltb (a b : float) : bool := PrimFloat.ltb a b.
Definition FOps : NumOps float :=
  mkNum float PrimFloat.zero PrimFloat.one PrimFloat.add PrimFloat.sub PrimFloat.mul PrimFloat.div
        PrimFloat.opp PrimFloat.sqrt Fltb PrimFloat.eqb (fun z => PrimFloat.of_uint63 (Uint63.of_Z (Z.abs z))).

Section Generic.
  Context {T : Type} (N : NumOps T).
  Definition two : T := add N (one N) (one N).
  Definition sum (l : list T) : T := fold_right (add N) (zero N) l.
  Definition sgn (x : T) : Z := if ltb N (zero N) x then 1%Z else if ltb N x (zero N) then (-1)%Z else 0%Z.
  Definition nabs (x : T) : T := if ltb N x (zero N) then opp N x else x.
  Definition sq (x : T) : T := mul N x x.
End Generic.
