(* SkeletonT3.v -- the artefact clean-up of the skeleton parser at the level of values (skeleton.py:211-280):
   get_artifacts (which vertices are pixel artefacts: three mesh edges, two cells, not on an external mesh edge) and do_t3_transition
   (an artefact - a little triangle of such vertices - is contracted to one new vertex: mesh edges inside the artefact are deleted,
   the others are re-attached with SmallEdge.replace_vertex, the cells with Cell.replace_vertex, the artefact vertices are deleted).
   The state carries what the code reads and writes: the vertex ids, every vertex's ownEdges and ownCells lists in their order, the
   mesh edges (ends and the external flag) and the cell cycles.  Dictionaries are association lists.  No proofs here. *)
From Coq Require Import ZArith QArith List Bool.
From Forsys Require Import Model.PyList Model.CaseUtil.
Import ListNotations.
Open Scope Z_scope.

Definition aget {A} (d : A) (k : Z) (l : list (Z * A)) : A :=
  match find (fun kv => Z.eqb (fst kv) k) l with Some kv => snd kv | None => d end.
Definition ahas {A} (k : Z) (l : list (Z * A)) : bool := existsb (fun kv => Z.eqb (fst kv) k) l.
Definition aset {A} (k : Z) (v : A) (l : list (Z * A)) : list (Z * A) :=
  if ahas k l then map (fun kv => if Z.eqb (fst kv) k then (k, v) else kv) l else l ++ [(k, v)].
Definition adel {A} (k : Z) (l : list (Z * A)) : list (Z * A) := filter (fun kv => negb (Z.eqb (fst kv) k)) l.
(* update of an entry that may be gone from the dictionary (the object lives on, the table no longer shows it) *)
Definition aupd {A} (k : Z) (f : A -> A) (l : list (Z * A)) : list (Z * A) := map (fun kv => if Z.eqb (fst kv) k then (fst kv, f (snd kv)) else kv) l.
(* list.remove(x): the first occurrence; nothing when absent (the code guards it or knows it is there) *)
Fixpoint remove1 (x : Z) (l : list Z) : list Z :=
  match l with [] => [] | y :: t => if Z.eqb x y then t else y :: remove1 x t end.
(* l[l.index(x)] = y *)
Fixpoint replace1 (x y : Z) (l : list Z) : list Z :=
  match l with [] => [] | z :: t => if Z.eqb x z then y :: t else z :: replace1 x y t end.
(* Vertex.add_edge / add_cell *)
Definition add_unique (x : Z) (l : list Z) : list Z := if memZ x l then l else l ++ [x].

Record mesh := mkM {
  vids : list Z;                          (* keys of the vertex dictionary, in order *)
  ownE : list (Z * list Z);
  ownC : list (Z * list Z);
  medges : list (Z * (Z * Z * bool));     (* id -> (v1, v2, external) *)
  mcells : list (Z * list Z)
}.

(* skeleton.py:258-280 *)
Definition get_artifacts (m : mesh) : list Z :=
  let cand := filter (fun v => Nat.eqb (length (aget [] v (ownE m))) 3%nat && Nat.eqb (length (aget [] v (ownC m))) 2%nat) (vids m) in
  let ext := flat_map (fun kv : Z * (Z * Z * bool) => let '(a, b, x) := snd kv in if x then [a; b] else []) (medges m) in
  sortZ (filter (fun v => negb (memZ v ext)) cand).

(* del self.edges[e]: SmallEdge.__del__ takes the id off both ends *)
Definition del_edge (m : mesh) (e : Z) : mesh :=
  let '(a, b, _) := aget (0, 0, false) e (medges m) in
  let oe := aupd b (remove1 e) (aupd a (remove1 e) (ownE m)) in
  mkM (vids m) oe (ownC m) (adel e (medges m)) (mcells m).
(* SmallEdge.replace_vertex(v, new) *)
Definition replace_end (v new : Z) (m : mesh) (e : Z) : mesh :=
  let '(a, b, x) := aget (0, 0, false) e (medges m) in
  let oe := aset v (remove1 e (aget [] v (ownE m))) (ownE m) in
  let oe := aset new (add_unique e (aget [] new oe)) oe in
  mkM (vids m) oe (ownC m) (aset e (if Z.eqb a v then (new, b, x) else (a, new, x)) (medges m)) (mcells m).
(* Cell.replace_vertex(v, new): the old vertex keeps the cell in its ownCells *)
Definition replace_in_cell (v new : Z) (m : mesh) (c : Z) : mesh :=
  let cyc := aget [] c (mcells m) in
  if memZ new cyc then mkM (vids m) (ownE m) (ownC m) (medges m) (aset c (remove1 v cyc) (mcells m))
  else mkM (vids m) (ownE m) (aset new (add_unique c (aget [] new (ownC m))) (ownC m)) (medges m) (aset c (replace1 v new cyc) (mcells m)).

Definition inside (art : list Z) (m : mesh) (e : Z) : bool :=
  let '(a, b, _) := aget (0, 0, false) e (medges m) in memZ a art && memZ b art.
Definition t3_vertex (art : list Z) (new : Z) (m : mesh) (v : Z) : mesh :=
  let '(rem, rep) := partition (inside art m) (aget [] v (ownE m)) in
  let m := fold_left del_edge rem m in
  let m := fold_left (replace_end v new) rep m in
  fold_left (replace_in_cell v new) (aget [] v (ownC m)) m.
Definition new_vid (m : mesh) : Z := fold_left Z.max (vids m) 0 + 1.         (* get_new_vid: ids are non-negative *)
Definition drop_vertex (m : mesh) (v : Z) : mesh :=
  if Nat.eqb (length (aget [] v (ownE m))) 0%nat
  then mkM (filter (fun k => negb (Z.eqb k v)) (vids m)) (adel v (ownE m)) (adel v (ownC m)) (medges m) (mcells m)
  else m.
(* skeleton.py:211-256 *)
Definition t3 (m : mesh) (art : list Z) : mesh :=
  let new := new_vid m in
  let m := mkM (vids m ++ [new]) (ownE m ++ [(new, [])]) (ownC m ++ [(new, [])]) (medges m) (mcells m) in
  let m := fold_left (t3_vertex art new) art m in
  fold_left drop_vertex art m.
(* the new vertex sits at the mean position of the artefact *)
Definition t3_position (pos : list (Z * (Q * Q))) (art : list Z) : Q * Q :=
  let n := inject_Z (Z.of_nat (length art)) in
  (fold_right Qplus 0%Q (map (fun v => fst (aget (0, 0)%Q v pos)) art) / n,
   fold_right Qplus 0%Q (map (fun v => snd (aget (0, 0)%Q v pos)) art) / n)%Q.

(* comparison with a snapshot of the implementation (dictionaries compared as maps) *)
Definition amap_eqb {A} (eqb : A -> A -> bool) (d : A) (a b : list (Z * A)) : bool :=
  Nat.eqb (length a) (length b) && forallb (fun kv => ahas (fst kv) a && eqb (aget d (fst kv) a) (snd kv)) b.
Definition edge_eqb (a b : Z * Z * bool) : bool :=
  let '(a1, a2, ax) := a in let '(b1, b2, bx) := b in Z.eqb a1 b1 && Z.eqb a2 b2 && Bool.eqb ax bx.
Definition mesh_eqb (a b : mesh) : bool :=
  setZ_eqb (vids a) (vids b) && amap_eqb listZ_eqb [] (ownE a) (ownE b) && amap_eqb listZ_eqb [] (ownC a) (ownC b) &&
  amap_eqb edge_eqb (0, 0, false) (medges a) (medges b) && amap_eqb listZ_eqb [] (mcells a) (mcells b).

(* ------------------------------------------------------------------ grouping of the artefact vertices (skeleton.py:157-175, 193-209)
   add_vertices_to_current is called once per artefact (the while loop's guard is refreshed after the call): an artefact is its first vertex
   followed by those of its neighbours - in the order of its ownEdges - that are artefact vertices *)
Definition other_end (m : mesh) (e v : Z) : Z :=
  let '(a, b, _) := aget (0, 0, false) e (medges m) in if Z.eqb a v then b else a.
Definition grow (m : mesh) (all cur : list Z) : list Z :=
  let v0 := last cur 0 in
  fold_left (fun cur e => let w := other_end m e v0 in if memZ w all && negb (memZ w cur) then cur ++ [w] else cur) (aget [] v0 (ownE m)) cur.
Fixpoint group (fuel : nat) (m : mesh) (all : list Z) : list (list Z) :=
  match fuel, all with
  | S f, a :: _ => let cur := grow m all [a] in cur :: group f m (fold_left (fun l x => remove1 x l) cur all)
  | _, _ => []
  end.
Definition artefacts (m : mesh) : list (list Z) := let all := get_artifacts m in group (length all) m all.
(* the whole pass: every artefact contracted in turn *)
Definition clean_up (m : mesh) : mesh := fold_left t3 (artefacts m) m.

(* executable form of the premises of the theorem "the contraction leaves no artefact vertex in any cell" (evaluated on recorded states) *)
Fixpoint nodupb (l : list Z) : bool := match l with [] => true | x :: t => negb (memZ x t) && nodupb t end.
Definition t3_hyps (m : mesh) (art : list Z) : bool :=
  forallb (fun v => memZ v (vids m)) art &&
  forallb (fun kc : Z * list Z => nodupb (snd kc)) (mcells m) &&
  forallb (fun v => forallb (fun kc : Z * list Z => negb (memZ v (snd kc)) || memZ (fst kc) (aget [] v (ownC m))) (mcells m)) art.

(* ------------------------------------------------------------------ removal of isolated cells (skeleton.py:177-191): a cell all of whose vertices
   belong to no other cell is dropped with its vertices and their mesh edges.  `for e in v.ownEdges: del self.edges[e]` runs over a list that
   __del__ shortens under the iterator: [del_live] visits position 0, 1, 2, ... of the list as it is at each step. *)
Fixpoint del_live (fuel i : nat) (m : mesh) (v : Z) : mesh :=
  match fuel with
  | O => m
  | S f => match nth_error (aget [] v (ownE m)) i with
           | None => m
           | Some e => del_live f (S i) (del_edge m e) v
           end
  end.
Definition remove_vertex (m : mesh) (v : Z) : mesh :=
  if memZ v (vids m)
  then let m := del_live (S (length (aget [] v (ownE m)))) 0 m v in
       mkM (filter (fun k => negb (Z.eqb k v)) (vids m)) (adel v (ownE m)) (adel v (ownC m)) (medges m) (mcells m)
  else m.
Definition isolated (m : mesh) (cy : list Z) : bool := forallb (fun v => Nat.leb (length (aget [] v (ownC m))) 1) cy.
Definition remove_isolated (m : mesh) : mesh :=
  let '(m1, gone) :=
    fold_left (fun (st : mesh * list Z) (kc : Z * list Z) =>
                 let '(m, gone) := st in
                 if isolated m (snd kc) then (fold_left remove_vertex (snd kc) m, gone ++ [fst kc]) else st)
              (mcells m) (m, []) in
  fold_left (fun m c => let cy := aget [] c (mcells m) in
                        mkM (vids m) (ownE m) (fold_left (fun oc v => aupd v (remove1 c) oc) cy (ownC m)) (medges m) (adel c (mcells m)))
            gone m1.
(* everything create_lattice does after the inner-triangle pass *)
Definition finish_lattice (m : mesh) : mesh := remove_isolated (clean_up m).

(* ------------------------------------------------------------------ from the contours to the state the clean-up starts from
   (Model/Skeleton.v: vertices interned by pixel, one cell per contour, mesh edges in creation order).  ownEdges of a vertex = the mesh edges
   at it in creation order, ownCells = the cells through it in creation order, external = an end that belongs to one cell only. *)
From Forsys Require Model.Skeleton.
Definition enumZ {A} (l : list A) : list (Z * A) := combine (map Z.of_nat (seq 0 (length l))) l.
Definition mesh_of_lattice (st : Skeleton.skstate) : mesh :=
  let cells := Skeleton.sk_cells st in
  let es := enumZ (Skeleton.edges_of_cells cells) in
  let cs := enumZ cells in
  let vs := map snd (Skeleton.sk_vertices st) in
  mkM vs
      (map (fun v => (v, map fst (filter (fun ke : Z * (Z * Z) => Z.eqb (fst (snd ke)) v || Z.eqb (snd (snd ke)) v) es))) vs)
      (map (fun v => (v, map fst (filter (fun kc : Z * list Z => memZ v (snd kc)) cs))) vs)
      (map (fun ke : Z * (Z * Z) => (fst ke, (fst (snd ke), snd (snd ke), Skeleton.is_external cells (snd ke)))) es)
      cs.
(* create_lattice from the kept contours, when the inner-triangle pass finds nothing to do *)
Definition create_lattice_model (contours : list (list Skeleton.pix)) : mesh := finish_lattice (mesh_of_lattice (Skeleton.lattice contours)).

(* ------------------------------------------------------------------ the inner-triangle pass (skeleton.py:117-152): interfaces that share both ends
   (counted in both directions, in first-occurrence order as collections.Counter keeps them); for each such pair of ends, unless visited, the
   first interface with those ends - if it has at most three vertices - loses its smallest vertex that the next pair's first interface does not
   have: the cells through it take the interface's first vertex instead, its mesh edges and the vertex itself are deleted. *)
From Forsys Require Model.Interfaces.
Definition pair_eqb (a b : Z * Z) : bool := Z.eqb (fst a) (fst b) && Z.eqb (snd a) (snd b).
Fixpoint index_pair (k : Z * Z) (l : list (Z * Z)) : nat :=
  match l with [] => O | x :: t => if pair_eqb k x then O else S (index_pair k t) end.
Definition tri_step (abe : list (list Z)) (fl inner : list (Z * Z)) (st : mesh * list (Z * Z)) (i : nat) : mesh * list (Z * Z) :=
  let '(m, visited) := st in
  let k := nth i inner (0, 0) in
  let k1 := nth (S i) inner (0, 0) in
  if existsb (pair_eqb k) visited || existsb (pair_eqb (snd k, fst k)) visited then st
  else
    let n := length abe in
    let e0 := nth (Nat.modulo (index_pair k fl) n) abe [] in
    let e1 := nth (Nat.modulo (index_pair k1 fl) n) abe [] in
    if Nat.ltb 3 (length e0) then st
    else
      let vid := hd 0 (sortZ (filter (fun x => negb (memZ x e1)) e0)) in          (* np.setdiff1d(edge_0, edge_1)[0] *)
      let m := fold_left (replace_in_cell vid (headZ e0)) (aget [] vid (ownC m)) m in
      (remove_vertex m vid, visited ++ [k]).
Definition inner_triangles (m : mesh) : mesh :=
  let abe := Interfaces.create_edges_new (fun v => Nat.ltb 2 (length (aget [] v (ownE m)))) (mcells m) in
  let fl := map (fun e => (headZ e, lastZ e)) abe ++ map (fun e => (lastZ e, headZ e)) abe in
  let keys := fold_left (fun acc x => if existsb (pair_eqb x) acc then acc else acc ++ [x]) fl [] in
  let inner := filter (fun k => Nat.ltb 1 (length (filter (pair_eqb k) fl))) keys in
  fst (fold_left (tri_step abe fl inner) (seq 0 (pred (length inner))) (m, [])).
(* create_lattice, all of it, from the kept contours *)
Definition create_lattice_full (contours : list (list Skeleton.pix)) : mesh :=
  finish_lattice (inner_triangles (mesh_of_lattice (Skeleton.lattice contours))).
