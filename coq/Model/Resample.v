(* Resample.v -- generate_mesh / join_two_vertices / get_unused_id (forsys/virtual_edges.py:49-122,358-410)
   at the level of values: vertices dict (id -> position), edges dict (id -> end ids), cells dict (id -> cycle).
   No proofs here. *)
From Coq Require Import ZArith QArith List Bool Uint63 PrimFloat SpecFloat FloatOps.
From Forsys Require Import Model.PyList Model.Interfaces.
Import ListNotations.
Open Scope Z_scope.

(* ---- int(len(e) / ne * i) in IEEE binary64, as CPython computes it ---- *)
Definition float_trunc (x : float) : Z :=
  match Prim2SF x with
  | S754_finite s m e =>
      let a := if 0 <=? e then Z.shiftl (Zpos m) e else Z.shiftr (Zpos m) (- e) in
      if s then - a else a
  | _ => 0
  end.
Definition float_of_Z (z : Z) : float := PrimFloat.of_uint63 (Uint63.of_Z z).
Definition float_index (len ne i : Z) : Z :=
  float_trunc (PrimFloat.mul (PrimFloat.div (float_of_Z len) (float_of_Z ne)) (float_of_Z i)).
(* the idealised index the docstring suggests *)
Definition floor_index (len ne i : Z) : Z := (len * i) / ne.

Section Select.
  Variable idx : Z -> Z -> Z -> Z.      (* len ne i -> position *)

  (* virtual_edges.py:59-69 *)
  Definition select_iface (ne : Z) (e : list Z) : list Z :=
    let len := Z.of_nat (length e) in
    if ne <? len
    then map (fun i => nth (Z.to_nat (idx len ne (Z.of_nat i))) e 0) (seq 0 (Z.to_nat ne)) ++ [last e 0]
    else e.

  Definition n_edge_array (ne : Z) (bedges : list (list Z)) : list (list Z) := map (select_iface ne) bedges.
End Select.

(* virtual_edges.py:73-76 : two-vertex interfaces whose ends both have < 3 cells *)
Definition to_join (ncells : Z -> Z) (bedges : list (list Z)) (ne : Z) : list (list Z) :=
  filter (fun e => negb (ne <? Z.of_nat (length e)) &&
                   match e with [a; b] => (ncells a <? 3) && (ncells b <? 3) | _ => false end) bedges.

Record vstate := mkV {
  vs : list (Z * (Q * Q));      (* vertices: id -> (x, y), dict order *)
  es : list (Z * (Z * Z));      (* edges: id -> (v1, v2), dict order *)
  cs : list (Z * list Z)        (* cells: id -> cycle, dict order *)
}.

(* virtual_edges.py:78-109 : drop unused vertices from cells and from the dict, rebuild all edges, drop empty cells *)
Fixpoint consecutive_pairs (l : list Z) : list (Z * Z) :=
  match l with a :: ((b :: _) as t) => (a, b) :: consecutive_pairs t | _ => [] end.
Fixpoint number_from {A} (i : Z) (l : list A) : list (Z * A) :=
  match l with [] => [] | x :: t => (i, x) :: number_from (i + 1) t end.

Definition resample_core (st : vstate) (narr : list (list Z)) : vstate :=
  let used := concat narr in
  let keep := fun v => memZ v used in
  let vs' := filter (fun kv => keep (fst kv)) (vs st) in
  let cs' := filter (fun kc => negb (Nat.eqb (length (snd kc)) 0))
                    (map (fun kc => (fst kc, filter keep (snd kc))) (cs st)) in
  let es' := number_from 0 (concat (map consecutive_pairs narr)) in
  mkV vs' es' cs'.

(* ---- join_two_vertices ---- *)
(* virtual_edges.py:404-410 *)
Fixpoint first_free (fuel : nat) (ks : list Z) (n : Z) : Z :=
  match fuel with O => n | S f => if memZ n ks then first_free f ks (n + 1) else n end.
Definition get_unused_id (ks : list Z) : Z := first_free (S (length ks)) ks (Z.of_nat (length ks)).

Definition has_key {A} (d : list (Z * A)) (k : Z) : bool := match assoc d k with Some _ => true | None => false end.
Definition del_key {A} (d : list (Z * A)) (k : Z) : list (Z * A) := filter (fun kv => negb (Z.eqb (fst kv) k)) d.
Fixpoint set_key {A} (d : list (Z * A)) (k : Z) (v : A) : list (Z * A) :=
  match d with [] => [(k, v)] | (k', v') :: t => if Z.eqb k' k then (k, v) :: t else (k', v') :: set_key t k v end.

(* cell.py:124-141 Cell.replace_vertex on the id cycle *)
Fixpoint replace_first (old new : Z) (l : list Z) : list Z :=
  match l with [] => [] | x :: t => if Z.eqb x old then new :: t else x :: replace_first old new t end.
Fixpoint remove_first (old : Z) (l : list Z) : list Z :=
  match l with [] => [] | x :: t => if Z.eqb x old then t else x :: remove_first old t end.
Definition cell_replace_vertex (old new : Z) (cyc : list Z) : list Z :=
  if memZ new cyc then remove_first old cyc else replace_first old new cyc.
(* edge.py:72-88 *)
Definition edge_replace_vertex (old new : Z) (e : Z * Z) : Z * Z :=
  if Z.eqb (fst e) old then (new, snd e) else (fst e, new).

Definition lookup_vertex (st : vstate) (mapper : list (Z * Z)) (k : Z) : option Z :=
  if has_key (vs st) k then Some k
  else match assoc mapper k with
       | Some k' => if has_key (vs st) k' then Some k' else None
       | None => None
       end.

(* one call of join_two_vertices; None = KeyError (-> SegmentationArtifactException) or an inconsistent mesh *)
Definition join_two (st : vstate) (mapper : list (Z * Z)) (a b : Z) : option (vstate * list (Z * Z)) :=
  match lookup_vertex st mapper a, lookup_vertex st mapper b with
  | Some v0, Some v1 =>
      match assoc (vs st) v0, assoc (vs st) v1 with
      | Some (x0, y0), Some (x1, y1) =>
          let common := filter (fun ke => (Z.eqb (fst (snd ke)) v0 && Z.eqb (snd (snd ke)) v1) ||
                                          (Z.eqb (fst (snd ke)) v1 && Z.eqb (snd (snd ke)) v0)) (es st) in
          match common with
          | [] => None
          | (ce, _) :: _ =>
              let new_id := get_unused_id (keys (vs st)) in
              let pos := (Qred ((x0 + x1) / 2), Qred ((y0 + y1) / 2))%Q in
              let mapper' := set_key (set_key mapper a new_id) b new_id in
              let cs1 := map (fun kc => (fst kc, if memZ v0 (snd kc) then cell_replace_vertex v0 new_id (snd kc) else snd kc)) (cs st) in
              let cs2 := map (fun kc => (fst kc, if memZ v1 (snd kc) then cell_replace_vertex v1 new_id (snd kc) else snd kc)) cs1 in
              let es1 := del_key (es st) ce in
              let es2 := map (fun ke => (fst ke, if Z.eqb (fst (snd ke)) v0 || Z.eqb (snd (snd ke)) v0
                                                 then edge_replace_vertex v0 new_id (snd ke) else snd ke)) es1 in
              let es3 := map (fun ke => (fst ke, if Z.eqb (fst (snd ke)) v1 || Z.eqb (snd (snd ke)) v1
                                                 then edge_replace_vertex v1 new_id (snd ke) else snd ke)) es2 in
              let vs1 := del_key (del_key ((vs st) ++ [(new_id, pos)]) v0) v1 in
              Some (mkV vs1 es3 cs2, mapper')
          end
      | _, _ => None
      end
  | _, _ => None
  end.

Fixpoint join_all (st : vstate) (mapper : list (Z * Z)) (l : list (list Z)) : option vstate :=
  match l with
  | [] => Some st
  | [a; b] :: t => match join_two st mapper a b with
                   | Some (st', m') => join_all st' m' t
                   | None => None
                   end
  | _ :: t => None
  end.

(* virtual_edges.py:49-122 *)
Definition generate_mesh (idx : Z -> Z -> Z -> Z) (junc : Z -> bool) (ncells : Z -> Z)
           (st : vstate) (ne : Z) (replace_short : bool) : option (vstate * list (list Z)) :=
  let bedges := create_edges_new junc (cs st) in
  let narr := n_edge_array idx ne bedges in
  let st1 := resample_core st narr in
  if replace_short
  then match join_all st1 [] (to_join ncells bedges ne) with
       | Some st2 => Some (st2, narr)
       | None => None
       end
  else Some (st1, narr).

(* ---- executable form of the conditions under which Proofs/ResampleConsistency.v shows that consecutive vertices of every resampled
   cell cycle are joined by a rebuilt mesh edge: every junction is named by a resampled interface, the vertices of an interface that
   any resampled interface names are exactly its own selection (in order), every cell has a junction.  jl = the junction ids. *)
Definition resample_hyps (idx : Z -> Z -> Z -> Z) (jl : list Z) (ne : Z) (st : vstate) : bool :=
  let junc := fun v => memZ v jl in
  let bedges := create_edges_new junc (cs st) in
  let narr := n_edge_array idx ne bedges in
  let keep := fun v => memZ v (concat narr) in
  forallb keep jl && forallb (fun f => listZ_eq (filter keep f) (select_iface idx ne f)) bedges
  && forallb (fun c => existsb junc (snd c)) (cs st).
(* the conclusion, executable: every cyclically consecutive pair of every cell cycle has a mesh edge in one of the two directions *)
Definition cyc_pairs (l : list Z) : list (Z * Z) := consecutive_pairs (l ++ [headZ l]).
Definition has_edge (es : list (Z * (Z * Z))) (p : Z * Z) : bool :=
  existsb (fun e => (Z.eqb (fst (snd e)) (fst p) && Z.eqb (snd (snd e)) (snd p)) || (Z.eqb (fst (snd e)) (snd p) && Z.eqb (snd (snd e)) (fst p))) es.
Definition cycles_joined (st : vstate) : bool := forallb (fun c => forallb (has_edge (es st)) (cyc_pairs (snd c))) (cs st).
