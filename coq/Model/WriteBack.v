(* WriteBack.v -- ForceMatrix.solve, write-back of the solution onto the mesh edges (fmatrix.py:326-341):
     used = {tuple(element) for element in self.big_edges_to_use}
     for big_edge in self.frame.internal_big_edges:          # interfaces left out of the system keep no value of an earlier solve
         if tuple(big_edge.get_vertices_ids()) not in used:
             for e in big_edge.edges: self.frame.edges[e].tension = 0.
     for index, element in enumerate(self.big_edges_to_use):
         edges_to_use = [list(set(ownEdges(element[k])) & set(ownEdges(element[k+1])))[0] for k in range(len(element)-1)]
         for e in edges_to_use: self.frame.edges[e].tension = float(xres[index])
   The tensions of the mesh edges are a function edge id -> value; [pick] is the first element of the intersection of the two ownEdges lists
   (a Python set: the harness evaluates the same expression to learn which element comes first).  No proofs here. *)
From Coq Require Import ZArith List Bool.
From Forsys Require Import Model.PyList Model.Resample.
Import ListNotations.
Open Scope Z_scope.

Section WB.
  Context {T : Type}.
  Definition upd (m : Z -> T) (k : Z) (v : T) : Z -> T := fun k' => if Z.eqb k' k then v else m k'.
  Definition write_list (l : list (Z * T)) (m : Z -> T) : Z -> T := fold_left (fun m kv => upd m (fst kv) (snd kv)) l m.

  Variable pick : Z * Z -> Z.
  Definition edges_to_use (element : list Z) : list Z := map pick (consecutive_pairs element).
  (* internal : (vertex ids, mesh-edge ids) of frame.internal_big_edges, in order *)
  Definition reset_assignments (zero : T) (internal : list (list Z * list Z)) (used : list (list Z)) : list (Z * T) :=
    concat (map (fun be => if mem_list (fst be) used then [] else map (fun e => (e, zero)) (snd be)) internal).
  Fixpoint used_assignments (used : list (list Z)) (xres : list T) (dflt : T) : list (Z * T) :=
    match used with
    | [] => []
    | element :: rest => map (fun e => (e, hd dflt xres)) (edges_to_use element) ++ used_assignments rest (tl xres) dflt
    end.
  Definition write_back (zero dflt : T) (internal : list (list Z * list Z)) (used : list (list Z)) (xres : list T) (m : Z -> T) : Z -> T :=
    write_list (reset_assignments zero internal used ++ used_assignments used xres dflt) m.
End WB.
