(* Stress.v -- coarse-grained stress tensor of one grid cell (forsys/stress_tensor.py:98-125) and the dictionary key
   (stress_tensor.py:104,125; frames.py:288).  Polymorphic in NumOps.  No proofs here. *)
From Coq Require Import ZArith List Bool.
From Forsys Require Import Model.Num.
Import ListNotations.

Section Sigma.
  Context {T : Type} (N : NumOps T).
  (* selected cells: (area, pressure); selected interfaces: (tension, (vx, vy, norm)) *)
  Definition total_area (cells : list (T * T)) : T := sum N (map fst cells).
  Definition pressure_term (cells : list (T * T)) : T := opp N (sum N (map (fun c => mul N (snd c) (fst c)) cells)).
  Definition tens_term (f : T -> T -> T) (edges : list (T * (T * T * T))) : T :=
    sum N (map (fun e => let '(t, (vx, vy, nrm)) := e in div N (mul N t (f vx vy)) nrm) edges).
  (* returns (sigma_xx, sigma_xy, sigma_yy); the matrix is [[xx, xy], [xy, yy]] *)
  Definition sigma (cells : list (T * T)) (edges : list (T * (T * T * T))) : T * T * T :=
    let A := total_area cells in
    if eqb N A (zero N) then (zero N, zero N, zero N)
    else let P := pressure_term cells in
         (div N (add N P (tens_term (fun x _ => mul N x x) edges)) A,
          div N (tens_term (fun x y => mul N x y) edges) A,
          div N (add N P (tens_term (fun _ y => mul N y y) edges)) A).
End Sigma.

(* frames.py:275-290 : the principal stresses are the eigenvalues of [[xx, xy], [xy, yy]] (numpy's eig is an oracle); in closed form
   the mean of the diagonal plus / minus the radius of Mohr's circle *)
Section Principal.
  Context {T : Type} (N : NumOps T).
  Definition principal (s : T * T * T) : T * T :=
    let '(a, b, c) := s in
    let m := div N (add N a c) (two N) in
    let h := div N (sub N a c) (two N) in
    let r := nsqrt N (add N (mul N h h) (mul N b b)) in
    (add N m r, sub N m r).
End Principal.

(* the key f"{row}{column}" as a list of decimal digits (grid sizes below 100) *)
Definition digits (n : nat) : list nat := if Nat.ltb n 10 then [n] else [Nat.div n 10; Nat.modulo n 10].
Definition key (row col : nat) : list nat := digits row ++ digits col.
