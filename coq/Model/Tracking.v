(* Tracking.v -- vertex tracking between frames and finite-difference velocities
   (forsys/time_series.py:79-273,370-397).  Exact over Q; no proofs here. *)
From Coq Require Import ZArith QArith List Bool.
From Forsys Require Import Model.PyList.
Import ListNotations.
Open Scope Z_scope.

Definition vtx := (Z * (Q * Q))%type.             (* id, (x, y) *)
Definition vid (v : vtx) := fst v.
Definition sqd (a b : vtx) : Q :=
  let dx := (fst (snd b) - fst (snd a))%Q in let dy := (snd (snd b) - snd (snd a))%Q in (dx * dx + dy * dy)%Q.

Definition optZ_eq (a b : option Z) : bool :=
  match a, b with Some x, Some y => Z.eqb x y | None, None => true | _, _ => false end.
(* `v1.id not in found` where found is the live view mapping.values() *)
Definition taken (mapping : list (Z * option Z)) (k : Z) : bool := existsb (fun kv => optZ_eq (snd kv) (Some k)) mapping.

(* one sweep of the pool with a given radius *)
Definition sweep (mapping : list (Z * option Z)) (v0 : vtx) (pool : list vtx) (maxspread : Q) : list vtx :=
  filter (fun v1 => negb (taken mapping (vid v1)) && negb (Qle_bool (maxspread * maxspread) (sqd v0 v1))) pool.

(* time_series.py:186-205.  spreads = 0.005 * 2^k as binary64 values, k = 0..4 (all < cutoff 0.1);
   the second loop re-uses the radius of the last sweep of the first loop (stale maxspread) *)
Fixpoint first_loop (mapping : list (Z * option Z)) (v0 : vtx) (pool : list vtx) (maxcoord : Q)
         (spreads : list Q) (acc : list vtx) (last_radius : Q) : list vtx * Q * list Q :=
  match spreads with
  | [] => (acc, last_radius, [])
  | s :: rest =>
      if (Nat.leb (length acc) 1)
      then let r := (s * maxcoord)%Q in first_loop mapping v0 pool maxcoord rest (acc ++ sweep mapping v0 pool r) r
      else (acc, last_radius, spreads)
  end.
Fixpoint second_loop (mapping : list (Z * option Z)) (v0 : vtx) (pool : list vtx) (radius : Q)
         (spreads : list Q) (acc : list vtx) : list vtx :=
  match spreads with
  | [] => acc
  | _ :: rest => if (Nat.leb (length acc) 1)
                 then second_loop mapping v0 pool radius rest (acc ++ sweep mapping v0 (rev pool) radius)
                 else acc
  end.

(* distances.index(min(distances)) : the first candidate of minimal distance *)
Fixpoint argmin (v0 : vtx) (cands : list vtx) (best : option vtx) : option vtx :=
  match cands with
  | [] => best
  | c :: t => match best with
              | None => argmin v0 t (Some c)
              | Some b => if Qle_bool (sqd v0 b) (sqd v0 c) then argmin v0 t best else argmin v0 t (Some c)
              end
  end.

Definition find_best (spreads : list Q) (mapping : list (Z * option Z)) (v0 : vtx) (pool : list vtx) (maxcoord : Q) : option Z :=
  let '(obverse, radius, rest) := first_loop mapping v0 pool maxcoord spreads [] 0%Q in
  let inverse := second_loop mapping v0 pool radius rest [] in
  option_map vid (argmin v0 (inverse ++ obverse) None).

(* time_series.py:149-160 : initial guess first, then every pool vertex not yet a key *)
Definition has_keyo (m : list (Z * option Z)) (k : Z) : bool := existsb (fun kv => Z.eqb (fst kv) k) m.
Definition create_mapping (spreads : list Q) (guess : list (Z * option Z)) (pool0 pool1 : list vtx) (maxcoord : Q)
  : list (Z * option Z) :=
  fold_left (fun m v0 => if has_keyo m (vid v0) then m else m ++ [(vid v0, find_best spreads m v0 pool1 maxcoord)]) pool0 guess.

(* time_series.py:129-147 : extent and the bounding-box shape test (squared) *)
Definition qmax (a b : Q) : Q := if Qle_bool a b then b else a.
Definition qmin (a b : Q) : Q := if Qle_bool a b then a else b.
Definition lmax (l : list Q) : Q := match l with [] => 0%Q | x :: t => fold_left qmax t x end.
Definition lmin (l : list Q) : Q := match l with [] => 0%Q | x :: t => fold_left qmin t x end.
Definition xs_of (p : list vtx) := map (fun v => fst (snd v)) p.
Definition ys_of (p : list vtx) := map (fun v => snd (snd v)) p.
Definition maxcoord_of (p0 p1 : list vtx) : Q :=
  qmax (lmax (xs_of p0 ++ xs_of p1) - lmin (xs_of p0 ++ xs_of p1)) (lmax (ys_of p0 ++ ys_of p1) - lmin (ys_of p0 ++ ys_of p1)).
Definition too_different (p0 p1 : list vtx) : bool :=
  let dxs := ((lmax (xs_of p1) - lmin (xs_of p1)) - (lmax (xs_of p0) - lmin (xs_of p0)))%Q in
  let dys := ((lmax (ys_of p1) - lmin (ys_of p1)) - (lmax (ys_of p0) - lmin (ys_of p0)))%Q in
  let m := ((1 # 10) * maxcoord_of p0 p1)%Q in
  negb (Qle_bool (dxs * dxs + dys * dys) (m * m)).

(* ------------------------------------------------------------------ get_point_id_by_map (time_series.py:370-397) *)
Inductive lookup := Found (p : option Z) | KeyError.
Fixpoint assoc_o (m : list (Z * option Z)) (k : Z) : lookup :=
  match m with [] => KeyError | (k', v) :: t => if Z.eqb k' k then Found v else assoc_o t k end.
(* {v: k for k, v in mapping.items()} : later items overwrite earlier ones *)
Fixpoint inv_lookup (m : list (Z * option Z)) (p : Z) (acc : lookup) : lookup :=
  match m with
  | [] => acc
  | (k, v) :: t => inv_lookup t p (if optZ_eq v (Some p) then Found (Some k) else acc)
  end.

(* maps : per-step mappings, maps[i] maps frame i to frame i+1 (None = frames too different) *)
Fixpoint follow_forward (maps : list (option (list (Z * option Z)))) (p : option Z) : lookup :=
  match maps with
  | [] => Found p
  | m :: rest => match p, m with
                 | None, _ => Found None
                 | _, None => Found p
                 | Some q, Some mm => match assoc_o mm q with
                                      | KeyError => KeyError
                                      | Found r => follow_forward rest r
                                      end
                 end
  end.
Fixpoint follow_backward (maps_rev : list (option (list (Z * option Z)))) (p : option Z) : lookup :=
  match maps_rev with
  | [] => Found p
  | m :: rest => match p, m with
                 | None, _ => Found None
                 | _, None => Found p
                 | Some q, Some mm => match inv_lookup mm q KeyError with
                                      | KeyError => KeyError
                                      | Found r => follow_backward rest r
                                      end
                 end
  end.
Definition slice {A} (l : list A) (a b : nat) : list A := firstn (b - a) (skipn a l).
Definition get_point_id_by_map (maps : list (option (list (Z * option Z)))) (p : Z) (t0 t1 : nat) : lookup :=
  if Nat.ltb t0 t1 then follow_forward (slice maps t0 t1) (Some p)
  else follow_backward (rev (slice maps t1 t0)) (Some p).

(* ------------------------------------------------------------------ calculate_velocity (time_series.py:232-273) *)
(* frames: list of (time, vertices) ; returns (vx, vy) ; a missing partner gives zero *)
Definition calculate_velocity (frames : list (Q * list vtx)) (maps : list (option (list (Z * option Z)))) (p : Z) (t : nat) : option (Q * Q) :=
  match nth_error frames t with
  | None => None
  | Some (ti, vs0) =>
      match assoc vs0 p with
      | None => None
      | Some (x0, y0) =>
          let tt1 := if Nat.eqb t (length frames - 1) then (t - 1)%nat else S t in
          match nth_error frames tt1 with
          | None => None
          | Some (tf, vs1) =>
              let partner := match get_point_id_by_map maps p t tt1 with
                             | Found (Some q) => assoc vs1 q
                             | _ => None
                             end in
              let '(x1, y1) := match partner with Some xy => xy | None => (x0, y0) end in
              Some (((x1 - x0) / (tf - ti))%Q, ((y1 - y0) / (tf - ti))%Q)
          end
      end
  end.
