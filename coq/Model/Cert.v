(* Cert.v -- certificate checker for non-negative least squares (DESIGN 2.6), polymorphic in NumOps.
   min |A z - b|^2 subject to z >= 0 :  w = A^T (A z - b);  KKT: z >= 0, w >= 0, z_i w_i = 0.
   The checker accepts slacks:  w_i >= -eps_w,  z_i w_i <= eps_zw.   No proofs here. *)
From Coq Require Import ZArith List Bool.
From Forsys Require Import Model.Num.
Import ListNotations.

Definition ZOps : NumOps Z :=
  mkNum Z 0%Z 1%Z Z.add Z.sub Z.mul Z.div Z.opp Z.sqrt Z.ltb Z.eqb (fun z => z).

Section Cert.
  Context {T : Type} (N : NumOps T).
  Definition vdot (a b : list T) : T := fold_right (add N) (zero N) (map (fun p => mul N (fst p) (snd p)) (combine a b)).
  Definition mv (A : list (list T)) (x : list T) : list T := map (fun r => vdot r x) A.
  Definition vsub (a b : list T) : list T := map (fun p => sub N (fst p) (snd p)) (combine a b).
  Definition vadd (a b : list T) : list T := map (fun p => add N (fst p) (snd p)) (combine a b).
  Definition vscale (c : T) (a : list T) : list T := map (mul N c) a.
  Definition vzeros (n : nat) : list T := repeat (zero N) n.
  (* A^T r *)
  Fixpoint tmv (n : nat) (A : list (list T)) (r : list T) : list T :=
    match A, r with
    | row :: A', ri :: r' => vadd (vscale ri row) (tmv n A' r')
    | _, _ => vzeros n
    end.
  Definition leb (a b : T) : bool := negb (ltb N b a).
  Definition sqn (a : list T) : T := vdot a a.
  Definition vsum (a : list T) : T := fold_right (add N) (zero N) a.

  Definition shape_ok (n : nat) (A : list (list T)) (b z : list T) : bool :=
    forallb (fun r => Nat.eqb (length r) n) A && Nat.eqb (length b) (length A) && Nat.eqb (length z) n.

  Definition kkt_check (n : nat) (A : list (list T)) (b z : list T) (eps_w eps_zw : T) : bool :=
    let r := vsub (mv A z) b in
    let w := tmv n A r in
    shape_ok n A b z &&
    forallb (fun zi => leb (zero N) zi) z &&
    forallb (fun wi => leb (opp N eps_w) wi) w &&
    forallb (fun p => leb (mul N (fst p) (snd p)) eps_zw) (combine z w).
End Cert.
