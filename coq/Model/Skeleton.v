(* Skeleton.v -- what Skeleton.create_lattice does with the OpenCV contours before its clean-up passes
   (forsys/skeleton.py:69-96, 282-314): vertices are interned by pixel position (ids in order of first appearance), one cell per
   contour with the contour's pixel sequence as vertex cycle.  No proofs here. *)
From Coq Require Import ZArith List Bool.
Import ListNotations.
Open Scope Z_scope.

Definition pix := (Z * Z)%type.
Definition pix_eq (a b : pix) : bool := Z.eqb (fst a) (fst b) && Z.eqb (snd a) (snd b).
Fixpoint lookup_pix (p : pix) (tbl : list (pix * Z)) : option Z :=
  match tbl with [] => None | (q, k) :: t => if pix_eq q p then Some k else lookup_pix p t end.

Record skstate := mkSk { sk_vertices : list (pix * Z); sk_cells : list (list Z) }.

Definition intern (st : list (pix * Z)) (p : pix) : Z * list (pix * Z) :=
  match lookup_pix p st with
  | Some k => (k, st)
  | None => let k := Z.of_nat (length st) in (k, st ++ [(p, k)])
  end.
Fixpoint intern_all (st : list (pix * Z)) (ps : list pix) : list Z * list (pix * Z) :=
  match ps with
  | [] => ([], st)
  | p :: t => let '(k, st1) := intern st p in let '(ks, st2) := intern_all st1 t in (k :: ks, st2)
  end.
Definition add_contour (st : skstate) (contour : list pix) : skstate :=
  let '(ks, tbl) := intern_all (sk_vertices st) contour in mkSk tbl (sk_cells st ++ [ks]).
Definition lattice (contours : list (list pix)) : skstate := fold_left add_contour contours (mkSk [] []).
