(* Skeleton.v -- what Skeleton.create_lattice does with the OpenCV contours before its clean-up passes
   (forsys/skeleton.py:69-96, 282-314): vertices are interned by pixel position (ids in order of first appearance), one cell per
   contour with the contour's pixel sequence as vertex cycle.  No proofs here. *)
From Coq Require Import ZArith List Bool.
Import ListNotations.
Open Scope Z_scope.

Definition pix := (Z * Z)%type.
Definition pix_eq (a b : pix) : bool := Z.eqb (fst a) (fst b) && Z.eqb (snd a) (snd b).
Fixpoint lookup_pix (p : pix) (tbl : list (pix * Z)) : option Z :=
  match tbl with [] => None | (q, k) :: t => if pix_eq q p then Some k else lookup_pix p t end.

Record skstate := mkSk { sk_vertices : list (pix * Z); sk_cells : list (list Z) }.

Definition intern (st : list (pix * Z)) (p : pix) : Z * list (pix * Z) :=
  match lookup_pix p st with
  | Some k => (k, st)
  | None => let k := Z.of_nat (length st) in (k, st ++ [(p, k)])
  end.
Fixpoint intern_all (st : list (pix * Z)) (ps : list pix) : list Z * list (pix * Z) :=
  match ps with
  | [] => ([], st)
  | p :: t => let '(k, st1) := intern st p in let '(ks, st2) := intern_all st1 t in (k :: ks, st2)
  end.
Definition add_contour (st : skstate) (contour : list pix) : skstate :=
  let '(ks, tbl) := intern_all (sk_vertices st) contour in mkSk tbl (sk_cells st ++ [ks]).
Definition lattice (contours : list (list pix)) : skstate := fold_left add_contour contours (mkSk [] []).

(* ---- Skeleton.__post_init__ (skeleton.py:35-42): the first contour is dropped, then every contour whose area is not below five times
   the mean of all areas but the largest.  On integer pixel coordinates calculate_area (skeleton.py:329-340) is half the integer
   |sum_i x_i*y_(i-1) - y_i*x_(i-1)|, so the comparison  area < 5 * mean(sorted(areas)[:-1])  is the integer comparison below
   (the float evaluation agrees with it except on an exact tie). *)
Fixpoint zprev_sum (a : pix) (l : list pix) : Z :=
  match l with [] => 0 | p :: t => (fst p * snd a - snd p * fst a) + zprev_sum p t end.
Definition signed_area2 (c : list pix) : Z := match c with [] => 0 | p0 :: _ => zprev_sum (last c p0) c end.
Definition area2_pix (c : list pix) : Z := Z.abs (signed_area2 c).
Definition zsum (l : list Z) : Z := fold_right Z.add 0 l.
Definition zmax (l : list Z) : Z := fold_right Z.max 0 l.
(* np.mean of an empty list is nan and every comparison with it is False: nothing is kept when there are fewer than two contours *)
Definition keeps (areas : list Z) (a : Z) : bool :=
  (2 <=? Z.of_nat (length areas)) && (a * (Z.of_nat (length areas) - 1) <? 5 * (zsum areas - zmax areas)).
Definition area_filter (cs : list (list pix)) : list (list pix) :=
  let areas := map area2_pix cs in filter (fun c => keeps areas (area2_pix c)) cs.
Definition parse_contours (all : list (list pix)) : list (list pix) := area_filter (tl all).
(* an exact tie: the only place where the float comparison may differ from the integer one *)
Definition area_tie (cs : list (list pix)) : bool :=
  let areas := map area2_pix cs in existsb (fun a => a * (Z.of_nat (length areas) - 1) =? 5 * (zsum areas - zmax areas)) areas.
Definition affine (m11 m12 m21 m22 tx ty : Z) (p : pix) : pix := (m11 * fst p + m12 * snd p + tx, m21 * fst p + m22 * snd p + ty).

(* ---- create_lattice, continued (skeleton.py:88-93, 282-299, 106-116, 166-186): one mesh edge per unordered pair of consecutive contour
   vertices (ids in order of creation); a cell is a border cell when one of its vertices belongs to no other cell, an edge is external
   when one of its ends belongs to a single cell, a cell all of whose vertices belong to it alone is removed at the end.
   Cells are the vertex cycles produced by [lattice]; the cell ids are the positions in the list. *)
Definition pair_in (a b : Z) (es : list (Z * Z)) : bool :=
  existsb (fun e => ((fst e =? a) && (snd e =? b)) || ((fst e =? b) && (snd e =? a))) es.
Definition add_edge (es : list (Z * Z)) (p : Z * Z) : list (Z * Z) := if pair_in (fst p) (snd p) es then es else es ++ [p].
Fixpoint consecutive (l : list Z) : list (Z * Z) :=
  match l with a :: t => match t with b :: _ => (a, b) :: consecutive t | [] => [] end | [] => [] end.
Definition closing (l : list Z) : list (Z * Z) := match l with [] => [] | a :: _ => [(last l a, a)] end.
Definition cell_pairs (l : list Z) : list (Z * Z) := consecutive l ++ closing l.
Definition edges_of_cells (cells : list (list Z)) : list (Z * Z) := fold_left add_edge (concat (map cell_pairs cells)) [].
Definition memZ (v : Z) (l : list Z) : bool := existsb (Z.eqb v) l.
Definition n_own_cells (cells : list (list Z)) (v : Z) : nat := length (filter (memZ v) cells).
Definition is_border (cells : list (list Z)) (c : list Z) : bool := existsb (fun v => Nat.eqb (n_own_cells cells v) 1) c.
Definition is_external (cells : list (list Z)) (e : Z * Z) : bool :=
  Nat.eqb (n_own_cells cells (fst e)) 1 || Nat.eqb (n_own_cells cells (snd e)) 1.
Definition is_isolated (cells : list (list Z)) (c : list Z) : bool := forallb (fun v => Nat.leb (n_own_cells cells v) 1) c.
