(* Geometry.v -- cell geometry primitives (forsys/cell.py:59-122,144-159), polymorphic in NumOps.
   No proofs here. *)
From Coq Require Import ZArith List Bool.
From Forsys Require Import Model.Num.
Import ListNotations.

Section Geo.
  Context {T : Type} (N : NumOps T).
  Definition P : Type := (T * T)%type.
  Definition px (p : P) := fst p.
  Definition py (p : P) := snd p.

  (* sum_i f prev_i p_i, with prev_0 = a : the fused form of  np.dot(u, np.roll(w, 1)) *)
  Fixpoint prev_sum (f : P -> P -> T) (a : P) (l : list P) : T :=
    match l with [] => zero N | p :: t => add N (f a p) (prev_sum f p t) end.
  Definition cyc_sum (f : P -> P -> T) (l : list P) : T :=
    match l with [] => zero N | p0 :: _ => prev_sum f (last l p0) l end.

  (* cell.py:98-108  0.5 * (dot(x, roll(y,1)) - dot(y, roll(x,1))) : term i is x_i*y_{i-1} - y_i*x_{i-1} *)
  Definition area_term (a p : P) : T := sub N (mul N (px p) (py a)) (mul N (py p) (px a)).
  Definition area2 (l : list P) : T := cyc_sum area_term l.
  Definition area (l : list P) : T := div N (area2 l) (two N).
  (* cell.py:90-96 int(np.sign(area)) *)
  Definition area_sign (l : list P) : Z := sgn N (area2 l).

  (* the textbook shoelace formula (counter-clockwise positive, y up) *)
  Definition cross (a p : P) : T := sub N (mul N (px a) (py p)) (mul N (px p) (py a)).
  Definition shoelace2 (l : list P) : T := cyc_sum cross l.

  (* cell.py:110-122 : sum over vertices of the distance to get_next_vertex *)
  Definition sqdist (a p : P) : T := add N (sq N (sub N (px a) (px p))) (sq N (sub N (py a) (py p))).
  Definition dist (a p : P) : T := nsqrt N (sqdist a p).
  Definition perimeter (l : list P) : T := cyc_sum dist l.
  Definition seg_sqlens (l : list P) : list T :=
    match l with [] => [] | p0 :: _ => (fix go a l := match l with [] => [] | p :: t => sqdist a p :: go p t end) (last l p0) l end.

  (* cell.py:81-88 *)
  Definition centroid (l : list P) : P :=
    let n := ofZ N (Z.of_nat (length l)) in
    (div N (sum N (map px l)) n, div N (sum N (map py l)) n).

  Definition ptrans (t : P) (p : P) : P := (add N (px p) (px t), add N (py p) (py t)).
  Definition pscale (s : T) (p : P) : P := (mul N s (px p), mul N s (py p)).
End Geo.

(* ---- navigation over vertex ids (cell.py:59-79) ---- *)
Fixpoint index_of (v : Z) (l : list Z) : option nat :=
  match l with [] => None | x :: t => if Z.eqb x v then Some 0%nat else option_map S (index_of v t) end.
(* vertices[(vertices.index(v) + s) % len(vertices)] ; Python's % is Z.modulo for a positive modulus *)
Definition step_vertex (l : list Z) (s : Z) (v : Z) : option Z :=
  match index_of v l with
  | None => None
  | Some i => nth_error l (Z.to_nat ((Z.of_nat i + s) mod Z.of_nat (length l)))
  end.
Definition next_vertex (l : list Z) (sign : Z) (v : Z) := step_vertex l sign v.
Definition prev_vertex (l : list Z) (sign : Z) (v : Z) := step_vertex l (- sign) v.

(* ---- neighbours (cell.py:144-159): set of ownCells of the cell's vertices, minus the cell ---- *)
Fixpoint dedupZ (l : list Z) : list Z :=
  match l with [] => [] | x :: t => if existsb (Z.eqb x) t then dedupZ t else x :: dedupZ t end.
Definition neighbours (cid : Z) (own_cells_of_vertices : list (list Z)) : list Z :=
  filter (fun c => negb (Z.eqb c cid)) (dedupZ (concat own_cells_of_vertices)).
