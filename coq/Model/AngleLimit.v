(* AngleLimit.v -- which junctions are flagged by the opening-angle limit (fmatrix.py:206-216): the angles between ALL pairs of the
   interface directions at the junction are taken and the junction is flagged when the largest one reaches the limit.
   arccos is decreasing on [-1, 1], so "angle >= limit" is "clipped dot product <= cos(limit)" for a limit in [0, pi]; the harness
   hands cos(limit) (and -2 for limits above pi, which flag nothing).  Polymorphic in NumOps.  No proofs here. *)
From Coq Require Import ZArith List Bool.
From Forsys Require Import Model.Num.
Import ListNotations.

Fixpoint all_pairs {A} (l : list A) : list (A * A) :=
  match l with [] => [] | x :: t => map (pair x) t ++ all_pairs t end.

Section Flag.
  Context {T : Type} (N : NumOps T).
  Definition dot2 (a b : T * T) : T := add N (mul N (fst a) (fst b)) (mul N (snd a) (snd b)).
  (* np.clip(dot, -1, 1) *)
  Definition clip1 (x : T) : T := if ltb N x (opp N (one N)) then opp N (one N) else if ltb N (one N) x then one N else x.
  Definition opens_by_limit (coslimit : T) (p : (T * T) * (T * T)) : bool := negb (ltb N coslimit (clip1 (dot2 (fst p) (snd p)))).
  Definition junction_flagged (coslimit : T) (versors : list (T * T)) : bool := existsb (opens_by_limit coslimit) (all_pairs versors).
  (* the set self.deletes *)
  Definition flagged_junctions (coslimit : T) (juncs : list (Z * list (T * T))) : list Z :=
    map fst (filter (fun jv => junction_flagged coslimit (snd jv)) juncs).
End Flag.
