#!/usr/bin/env python3
"""repl.py FILE  -- reads OLD and NEW blocks from stdin separated by a line '=====' ; preserves CRLF."""
import sys
p = sys.argv[1]
raw = open(p, 'rb').read()
crlf = b'\r\n' in raw
s = raw.decode().replace('\r\n', '\n')
old, new = sys.stdin.read().split('\n=====\n')
if new.endswith('\n') and not old.endswith('\n'):
    old += '\n'
assert s.count(old) == 1, f"old block occurs {s.count(old)} times"
s = s.replace(old, new)
if crlf:
    s = s.replace('\n', '\r\n')
open(p, 'wb').write(s.encode())
