#!/venv/bin/python
"""calibrate_fit.py -- measures the accuracy of forsys' circle fits (the black box behind c02.fit_delta) on exact arcs and lines:
tangent error at the first point against the analytic tangent, binned by the total turning of the arc.  Not part of any check."""
import math, sys, warnings
import numpy as np
sys.path.insert(0, "/repo")
warnings.simplefilter("ignore")
import forsys.virtual_edges as ve


class V:
    def __init__(s, x, y):
        s.x, s.y = x, y


rng = np.random.default_rng(int(sys.argv[1]) if len(sys.argv) > 1 else 7)
rows = []
for k in range(40000):
    straight = k % 4 == 0
    L = 10 ** rng.uniform(-2, 2)
    n = int(rng.integers(3, 18))
    off = rng.uniform(-1, 1, 2) * 10 ** rng.uniform(0, 3)
    if np.hypot(*off) < 2 * L:
        continue                                   # tissues in the checks sit away from the origin relative to an interface length
    a0 = rng.uniform(0, 2 * math.pi)
    if straight:
        th = 0.0
        d = np.array([math.cos(a0), math.sin(a0)])
        s = np.linspace(0, L, n) if k % 8 else np.sort(np.concatenate([[0, L], rng.uniform(0, L, n - 2)]))
        xs, ys, tt = off[0] + d[0] * s, off[1] + d[1] * s, d
    else:
        th = 10 ** rng.uniform(-5, 0.4)
        R = L / th
        ang = a0 + np.linspace(0, th, n)
        cx, cy = off[0] - R * math.cos(a0), off[1] - R * math.sin(a0)
        xs, ys = cx + R * np.cos(ang), cy + R * np.sin(ang)
        tt = np.array([-math.sin(ang[0]), math.cos(ang[0])])
    for fit in ("dlite", "taubinSVD"):
        c = ve.calculate_circle_center([V(x, y) for x, y in zip(xs, ys)], method=fit)
        v = np.array([xs[0] - c[0], ys[0] - c[1]])
        t = np.array([-v[1], v[0]]) / np.hypot(*v)
        rows.append((fit, th, min(np.max(np.abs(t - tt)), np.max(np.abs(t + tt)))))
for fit in ("dlite", "taubinSVD"):
    e = [r[2] for r in rows if r[0] == fit and r[1] == 0.0]
    print(f"{fit:10s} straight            n={len(e):5d} max error {max(e):.2e}")
    for lo, hi in [(-5, -4), (-4, -3), (-3, -2), (-2, -1.4), (-1.4, -1), (-1, 0.4)]:
        sel = [r for r in rows if r[0] == fit and r[1] > 0 and lo <= math.log10(r[1]) < hi]
        print(f"{fit:10s} turning 1e{lo}..1e{hi}  n={len(sel):5d} max error {max(r[2] for r in sel):.2e}  max (error - 0.55 turning) {max(r[2] - 0.55 * r[1] for r in sel):.2e}")
