#!/bin/bash
# coqgoal.sh <file.v> <line> : print the proof state after the given line (1-based) of the file
f=$1; n=$2
tmp=/verif/.work/dbg_$$.v
mkdir -p /verif/.work
head -n $n $f > $tmp
echo "Show. Abort All." >> $tmp   # Abort to let coqc end
cd /verif/coq && coqc -Q . Forsys $tmp 2>&1 | tail -${3:-40}
rm -f $tmp /verif/.work/dbg_$$.*
