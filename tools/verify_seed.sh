#!/bin/bash
# verify_seed.sh <name> <worktree>: confirm a seeded change: suite passes with it, demo fails with it and passes without it.
# writes /verif/seeded/<name>/{patch.diff,demo.py,verify.log}
name=$1; wt=$2
out=/verif/seeded/$name; mkdir -p $out
cd $wt || exit 2
git diff -- forsys > $out/patch.diff
cp demo.py $out/demo.py 2>/dev/null
cp notes.md $out/notes.md 2>/dev/null
{
echo "== demo with change"; PYTHONPATH=$wt timeout 600 /venv/bin/python demo.py; echo "exit=$?"
git stash -q -- forsys
echo "== demo without change"; PYTHONPATH=$wt timeout 600 /venv/bin/python demo.py; echo "exit=$?"
git stash pop -q
echo "== suite with change"; PYTHONPATH=$wt timeout 1500 /venv/bin/python -m pytest -q -p no:cacheprovider --timeout=900 2>&1 | tail -3
} > $out/verify.log 2>&1
grep -E "exit=|passed|failed" $out/verify.log
