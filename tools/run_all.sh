#!/bin/bash
# run_all.sh <tier> <seed> [PIDs...] : run checks sequentially, summarise
tier=$1; seed=$2; shift 2
cd "$(dirname "$0")/.."
pids=${@:-$(ls harness/props/c*.py | sed 's/.*\/c\([0-9]*\)\.py/C\1/')}
for p in $pids; do
  VERIF_SEED=$seed VERIF_NO_EVIDENCE=${NOEV:-1} timeout 7200 ./check $p --tier $tier 2>&1 | grep -E "VIOLATION|tier=" | cut -c1-200
done
