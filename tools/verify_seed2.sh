#!/bin/bash
# verify_seed2.sh <name> <worktree>: confirm a seeded change without git stash (stash refs are shared between worktrees):
# suite passes with it, demo fails with it and passes without it.  writes /verif/seeded/<name>/{patch.diff,demo.py,notes.md,verify.log}
name=$1; wt=$2
out=/verif/seeded/$name; mkdir -p $out
cd $wt || exit 2
git diff -- forsys > $out/patch.diff
[ -s $out/patch.diff ] || { echo "empty patch"; exit 2; }
cp demo.py $out/demo.py 2>/dev/null
cp notes.md $out/notes.md 2>/dev/null
{
echo "== demo with change"; PYTHONPATH=$wt timeout 900 /venv/bin/python demo.py 2>&1 | tail -15; echo "exit=${PIPESTATUS[0]}"
git checkout -- forsys
echo "== demo without change"; PYTHONPATH=$wt timeout 900 /venv/bin/python demo.py 2>&1 | tail -5; echo "exit=${PIPESTATUS[0]}"
git apply $out/patch.diff || echo "RE-APPLY FAILED"
echo "== suite with change"; PYTHONPATH=$wt timeout 1500 /venv/bin/python -m pytest -q -p no:cacheprovider --timeout=900 2>&1 | tail -3
} > $out/verify.log 2>&1
grep -E "exit=|passed|failed|FAILED" $out/verify.log | tr '\n' ' '; echo
