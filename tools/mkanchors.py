#!/venv/bin/python
"""mkanchors.py: record a fingerprint of every /repo function a Coq model mirrors (harness/anchors.json).
check.py recomputes the fingerprints on every run and lists, in the evidence, the modelled functions whose source changed since the
model was written - then the correspondence (not the fingerprint) decides whether model and code still agree."""
import hashlib, importlib, inspect, json, os, sys
sys.path.insert(0, "/repo")
ANCHORS = {
    "Model/Geometry.v": ["forsys.cell:Cell.get_area", "forsys.cell:Cell.get_area_sign", "forsys.cell:Cell.get_perimeter", "forsys.cell:Cell.get_next_vertex", "forsys.cell:Cell.get_previous_vertex", "forsys.cell:Cell.calculate_neighbors"],
    "Model/Interfaces.v": ["forsys.virtual_edges:create_edges_new", "forsys.virtual_edges:get_border_edge", "forsys.virtual_edges:eid_from_vertex", "forsys.frames:Frame.__post_init__", "forsys.edge:BigEdge.__post_init__"],
    "Model/Resample.v": ["forsys.virtual_edges:generate_mesh", "forsys.virtual_edges:join_two_vertices", "forsys.virtual_edges:get_unused_id"],
    "Model/ForceSys.v": ["forsys.fmatrix:ForceMatrix._build_matrix", "forsys.fmatrix:ForceMatrix.get_row", "forsys.fmatrix:ForceMatrix.get_vertex_equation", "forsys.fmatrix:ForceMatrix.get_angle_limited_edges", "forsys.fmatrix:ForceMatrix.add_mean_one", "forsys.fmatrix:ForceMatrix.add_mean_one_before", "forsys.fmatrix:ForceMatrix.get_solution_no_discarded", "forsys.edge:BigEdge.get_vector_from_vertex", "forsys.edge:BigEdge.get_versor_sign"],
    "Model/Velocity.v": ["forsys.fmatrix:ForceMatrix.set_velocity_matrix"],
    "Model/WriteBack.v": ["forsys.fmatrix:ForceMatrix.solve"],
    "Model/CircleFit.v": ["forsys.virtual_edges:calculate_circle_center", "forsys.virtual_edges:dlite_circle_method"],
    "Model/Tracking.v": ["forsys.time_series:TimeSeries.create_mapping", "forsys.time_series:TimeSeries.find_best", "forsys.time_series:TimeSeries.get_point_id_by_map", "forsys.time_series:TimeSeries.calculate_velocity"],
    "Model/Session.v": ["forsys.forsys:ForSys.build_force_matrix", "forsys.forsys:ForSys.solve_stress", "forsys.forsys:ForSys.build_pressure_matrix", "forsys.forsys:ForSys.solve_pressure"],
    "Model/PressureSys.v": ["forsys.pmatrix:PressureMatrix._build_matrix", "forsys.pmatrix:PressureMatrix.get_row", "forsys.general_matrix:GeneralMatrix.solve_system", "forsys.edge:BigEdge.calculate_curvature", "forsys.edge:BigEdge.calculate_total_curvature"],
    "Model/SEParse.v": ["forsys.surface_evolver:SurfaceEvolver.create_lattice", "forsys.surface_evolver:SurfaceEvolver.get_edges", "forsys.surface_evolver:SurfaceEvolver.get_cells", "forsys.surface_evolver:SurfaceEvolver.get_vertices", "forsys.surface_evolver:SurfaceEvolver.get_pressures"],
    "Model/Tessellation.v": ["forsys.tessellation:create_lattice_elements", "forsys.tessellation:get_vertex_number", "forsys.tessellation:get_enum", "forsys.tessellation:get_cell_area_sign", "forsys.tessellation:create_lattice"],
    "Model/RegionFilter.v": ["forsys.tessellation:remove_infinite_regions", "forsys.tessellation:distance_matrix"],
    "Model/Round.v": ["forsys.tessellation:line_eq", "forsys.tessellation:create_lattice_elements", "forsys.surface_evolver:SurfaceEvolver.get_vertices", "forsys.surface_evolver:SurfaceEvolver.create_lattice"],
    "Model/Stress.v": ["forsys.stress_tensor:stress_tensor", "forsys.frames:Frame.calculate_stress_tensor"],
    "Model/StressGrid.v": ["forsys.stress_tensor:stress_tensor", "forsys.stress_tensor:get_cells_df", "forsys.stress_tensor:get_big_edges_df"],
    "Model/Myosin.v": ["forsys.myosin:get_intensities", "forsys.myosin:get_layer_elements"],
    "Model/Band.v": ["forsys.myosin:get_interpolation", "forsys.myosin:walk_two_vertices"],
    "Model/Heap.v": ["forsys.vertex:Vertex.add_edge", "forsys.vertex:Vertex.remove_edge", "forsys.vertex:Vertex.add_cell", "forsys.vertex:Vertex.remove_cell", "forsys.edge:SmallEdge.__post_init__", "forsys.edge:SmallEdge.__del__", "forsys.cell:Cell.__post_init__", "forsys.cell:Cell.__del__", "forsys.cell:Cell.replace_vertex", "forsys.edge:SmallEdge.replace_vertex"],
    "Model/Skeleton.v": ["forsys.skeleton:Skeleton.__post_init__", "forsys.skeleton:Skeleton.create_lattice"],
    "Model/AngleLimit.v": ["forsys.fmatrix:ForceMatrix.get_angle_limited_edges"],
    "Model/SkeletonT3.v": ["forsys.skeleton:Skeleton.get_artifacts", "forsys.skeleton:Skeleton.do_t3_transition", "forsys.skeleton:Skeleton.get_new_vid",
                           "forsys.edge:SmallEdge.replace_vertex", "forsys.cell:Cell.replace_vertex", "forsys.edge:SmallEdge.__del__"],
}


def fingerprint(spec):
    mod, qual = spec.split(":")
    obj = importlib.import_module(mod)
    for part in qual.split("."):
        obj = getattr(obj, part)
    src = inspect.getsource(obj).replace("\r\n", "\n")
    return hashlib.sha256(src.encode()).hexdigest()[:16]


def current():
    out = {}
    for model, specs in ANCHORS.items():
        for sp in specs:
            try:
                out.setdefault(model, {})[sp] = fingerprint(sp)
            except Exception as ex:  # noqa
                out.setdefault(model, {})[sp] = "missing:" + type(ex).__name__
    return out


if __name__ == "__main__":
    cur = current()
    missing = [(m, s) for m, d in cur.items() for s, h in d.items() if h.startswith("missing")]
    for m, s in missing:
        print("not found:", m, s)
    json.dump(cur, open("/verif/harness/anchors.json", "w"), indent=1, sort_keys=True)
    print(sum(len(d) for d in cur.values()), "anchors written;", len(missing), "missing")
