#!/venv/bin/python
"""Regenerate /verif/MANIFEST.json from the table below and the property modules that exist."""
import json
import os
import subprocess

VERIF = os.path.dirname(os.path.dirname(os.path.abspath(__file__)))
LEVELS = {
    "C09": ("PARTIAL. Proved: for every sequence of the registration operations (creation, deletion with __del__, replace_vertex) a vertex "
            "lists a mesh edge / cell exactly when it exists and is attached to it; for the resampling path: rebuilt edges stored under their own ids, "
            "joining existing vertices, cells non-empty without repeated vertex, and consecutive vertices of every resampled cycle joined by a rebuilt "
            "edge under executable premises evaluated on every resampled mesh; for the dump parser kept edges join kept vertices and cell cycles name kept vertices; the model is tied to vertex.py / edge.py / cell.py by "
            "exact comparison of ownEdges / ownCells after random operation sequences. Every parser, generate_mesh, join_two_vertices and "
            "Frame are exercised by the oracle with all five clauses evaluated on the implementation objects after every step", "5/C09",
            "Coq invariant over all operation sequences + exact correspondence + construction-path oracle (partial)"),
    "C15": ("PARTIAL. cv2.findContours is a black box. Proved: vertices are interned by pixel position and there is one cell per contour "
            "with one vertex per contour pixel, one mesh edge per unordered pair of consecutive contour vertices, a border cell has a vertex of its own; the large-area filter keeps a contour exactly by its own area, independently of contour order, "
            "and commutes with translations, flips, transposition and quarter turns (models compared on the actual OpenCV output); of the clean-up: a vertex is an artefact exactly when it has three mesh edges, two cells and lies on no external mesh edge, the contraction (T3) of an artefact creates a vertex with a fresh id, loses no cell, and Cell.replace_vertex on a cycle without repeated vertex removes the artefact vertex and leaves the new one exactly once; under executable premises (cycles without repeated vertex, artefact vertices registered on their cells) the contraction leaves no artefact vertex in any cell cycle; the artefacts handed to it are non-empty groups of artefact vertices; the inner-triangle pass and the removal of isolated cells are modelled as they run (deletion under a live iterator) and create_lattice is tied end to end from the kept contours to the returned mesh (Model/SkeletonT3.v, tied step by step to get_artifacts / do_t3_transition on snapshots around the real calls). One cell per region, border flags, internal "
            "interfaces, junction count, Frame construction and their equality under the 8 symmetries / padding / mirror_y are evaluated "
            "by the oracle on square and honeycomb raster lattices (known topology) and the shipped images", "5/C15",
            "Coq theorems on the post-contour logic + symmetry oracle (partial)"),
    "C17": ("PARTIAL. Proved: the window is the (2L+1)^2 square of distinct pixels centred on the vertex, the integrated band is summed over "
            "distinct pixels and is linear in the image, the window-median statistic is positively homogeneous and returns the brightness of a "
            "uniform image, 'average' normalisation gives mean one, values keep the order given; the layered band is characterised (one walk position per "
            "integer step along the axis of larger extent, a pixel is in the band iff within `layers` of a walk position of some segment). Model tied to "
            "get_intensities by exact rational correspondence and the band (Model/Band.v, numpy's binary64 interpolation) to get_interpolation exactly; "
            "the polyline-length divisor (sqrt) and PIL's pixel access are oracles",
            "5/C17", "Coq theorems on a Gallina model + exact correspondence + oracle (partial)"),
    "C18": ("theorems over R for every selection: zero where nothing is selected, jointly linear in pressures and tensions, minus p times "
            "the identity for pure pressure; the dictionary key is injective up to 10 x 10 and collides at 12 x 12 (refutation = known "
            "finding D10); the closed form of the principal stresses gives the roots of the characteristic polynomial; the grid (Model/StressGrid.v): a grid cell's tensor is the tensor of exactly the cells whose centre lies within the radius and of the interfaces touching them, zero where there is none, monotone in the radius, bins uniform and grid centres their mid-points - tied to the whole analysis (bins and centres bit for bit); PrimFloat instance of the model compared with the implementation per grid cell, reported eigenvalues with the closed form; eigenvectors by residual",
            "5/C18", "Coq theorems on a polymorphic model + correspondence + oracle"),
    "C14": ("token-level model of the dump parser; theorems: a face loop broken over any number of continuation lines is read back whole "
            "(for every list of faces and every wrapping), negative references contribute the edge's second vertex, vertices of no face "
            "and the edges at them are dropped, density rule; tied to the parser by exact correspondence on dumps written by an "
            "independent serialiser; numeric fields: rounding to k decimals (Model/Round.v) gives the nearest k-decimal number, exact ties to even, records of at most k decimals stored as written, idempotent, monotone, odd - tied exactly and bit for bit to every stored coordinate, density (numpy's rounding) and multiplier, exact ties and next-to-tie doubles included", "5/C14",
            "Coq theorems on a token-level Gallina model + independent serialiser round-trip"),
    "C19": ("PARTIAL. Proved: vertices are interned by rounded coordinates and ids never change, a ridge walked by the neighbouring region "
            "gets minus the same edge id, cells are stored under |key|; the area sign taken on the doubled vertex list of a closed region is "
            "the region's own, and with the reversal rule every stored cycle has signed area -|area| (one rotational sense, over R); the regions that become "
            "cells are exactly the bounded non-empty ones whose corners are pairwise within the cut-off, independently of corner order. The "
            "lattice point made from a corner of a ridge is, in exact arithmetic, the corner rounded to three decimals whatever the other end and whichever end of the ridge it is (all ridges and regions meeting in a corner produce one point, within 0.0005 of it); its binary64 evaluation (Model/Round.v) is tied bit for bit to the code. The "
            "lattice-elements model and the cut-off model are tied to the code by exact correspondence (Qhull output handed to both). One cell per kept region "
            "with the region's corners as cycle and mesh consistency are evaluated against scipy's diagram by the oracle", "5/C19",
            "Coq theorems (interning, orientation) + exact correspondence + Voronoi oracle (partial)"),
    "C01": ("theorems: the two rows the assembly gives a junction compute the resultant of the tensions along the assembled versors, so balanced tensions are in the kernel of the assembled matrix (model of C02, over Q); over R: force balance makes (T/mean T, 0) an exact solution of the augmented system; an injective augmented matrix has a single non-negative minimiser; together with C02 (rows) and C05 (certified minimiser) this is the property; end to end on Voronoi / Moebius tissues (all back-ends, fits, resampling, axis-aligned first segments, extreme length units): tangents within the calibrated circle-fit accuracy, reported tensions fit the assembled equations as well as the true ones, recovery error within the derived bound (2|E T| + eps_res)/sigma_min; D1 attributed", "5/C01",
            "Coq theorems (equilibrium solves / uniqueness) + analytic end-to-end oracle"),
    "C03": ("the same two theorems with b = M T plus C13's placement / finite-difference theorems and the unit-mobility theorems (displacement = elapsed time x F gives velocity F for every non-zero step, forward and backward, any renumbering); end-to-end recovery "
            "from generated motions (forward / backward, unequal steps, independent renumbering incl. id 0) within the tolerance "
            "implied by the three-decimal rounding (theorem: the rounding moves each component by at most 0.0005, to the nearest thousandth)", "5/C03", "Coq theorems + generated-motion oracle"),
    "C06": ("PARTIAL. Proved over R: the stated tangent orientation commutes with rotations, positive scalings and reflections; a rotation of a junction's two equations preserves the squared residual; the multiplier column (1,1) is not rotation invariant (refutation = known finding D3); a change of units (all velocities x k) leaves the adimensional right-hand side unchanged and multiplies the reported system velocity by k. End-to-end invariance of tensions, pressures and coefficient pairs is evaluated by the oracle with tolerances derived from coordinate rounding, circle-fit accuracy and the least-squares perturbation bound, D1 / D3 attributed", "5/C06",
            "Coq theorems (equivariance) + transformed-pair oracle (partial)"),
    "C04": ("PARTIAL. Proved: every pressure equation has one +1 and one -1 at its interface's two cells, flipping the first cell's orientation negates the row; the turning estimate (np.gradient curvature, trapezoid rule) is zero on collinear points however spaced, invariant under translation and uniform scaling by any non-zero factor, and odd under reversal of the storage direction, so that the whole equation does not depend on the direction (over R); zero re-insertion puts 0 exactly at the dropped cells' positions and keeps the other entries in order; pressures reach the cells by dictionary position; a solution of the bordered normal equations is a zero-sum least-squares solution, and on a connected tissue (difference rows linking every cell to the first) the bordered system has no other solution. Tested by the oracle only: side of the centre of curvature, 3% accuracy on uniformly sampled arcs, that numpy's inverse solves the bordered system (against an independent solve; the theorem's premises are checked on the reported pressures), linearity in the tensions, 0.9 correlation (known finding D24)", "5/C04",
            "Coq theorems on a Gallina model + differential correspondence + analytic oracle (partial)"),
    "C07": ("PARTIAL. Proved: injective renumbering of vertices and arbitrary renumbering of cells renames the interface list and changes nothing else (not even order); starting a cell's cycle at another vertex rotates the cell's interface list; storing a cell in the opposite rotational sense gives the same interfaces traversed backwards; for whole tissues any per-cell combination of shifts and flips leaves the set of interfaces unchanged up to direction (both inclusions); pressure rows negate under a flip of the first cell. Invariance of the equations, tensions per cell pair and pressures per physical cell is evaluated by the oracle with tolerances derived from the measured order sensitivity of the circle fit; the sum of the unknowns is invariant under relabelling, so a minimiser among the candidates of a given sum (zero-sum pressures, mean-one tensions) relabels into a minimiser of the relabelled system", "5/C07",
            "Coq theorem (renaming) + relabelling oracle (partial)"),
    "C10": ("state-machine model of the ForSys stores with symbolic result tokens; theorem for every history: frame t reports the "
            "token of the last matrix (re)build preceding its last solve, independent of everything else; stores keyed by frame; "
            "the write-back of a solve onto the mesh edges is modelled and proved (entries of the system, zero for excluded internal interfaces, others unchanged, independent of earlier contents) and compared exactly with the implementation; "
            "after every operation of random histories the implementation's stores are compared bitwise with fresh objects", "5/C10",
            "Coq invariant over unbounded histories + differential comparison with fresh objects"),
    "C12": ("theorems for every pool / radius schedule / initial guess: no two vertices share a target, pairings honoured, targets are end points, every end point is mapped, a chosen target was free, forward-then-backward returns the start; small motions are followed: when every end point moves by less than d, d is at most half the spacing of the next frame's end points and at most the largest search radius, create_mapping maps every end point to its true successor for any numbering and pool order (over Q; find_best incl. the stale-radius second pass); tied to the code by exact correspondence; the floating-point implementation and the bounding-box clause are evaluated by the oracle", "5/C12",
            "Coq theorems on a Gallina model + exact differential correspondence"),
    "C13": ("theorems: forward/backward finite-difference formula over the real time stamps, zero for untracked vertices, placement of velocity components in the junction's own rows (all else zero), static mode zero; adimensional mode: the normaliser is the mean speed of ALL used junctions (n x mean = sum of speeds; a resting or untracked junction counts), one in dimensional mode; exact rational correspondence on dyadic series, PrimFloat correspondence of the normalisation step", "5/C13",
            "Coq theorems on a Gallina model + exact differential correspondence"),
    "C16": ("theorems: a junction is flagged exactly when some pair (any two positions) of its interface directions opens by at least the limit "
            "(clipped dot <= cos(limit)); used interfaces = internal interfaces minus those flagged at both ends (order kept), exclusion iff both "
            "ends flagged, nothing flagged => nothing excluded, re-insertion puts -1 exactly at the excluded positions and the restricted "
            "solution in order elsewhere; flagging rule, restriction and re-alignment tied to the code by correspondence (PrimFloat for the "
            "flags); restricted-system solution compared with an independent solve by the oracle",
            "5/C16", "Coq theorems on a Gallina model + differential correspondence + independent restricted solve"),
    "C02": ("theorems: one unknown per internal interface, row pairs exactly for the junctions whose equations received >=3 (<4 "
            "with ignore_four) coefficient pairs at rows 2k/2k+1, placement of versors by eid_from_vertex (under H_col), the "
            "stated tangent orientation over R, the code's sign-forcing rule proved equal to it under H_quad and refuted "
            "otherwise (known finding D1); the dlite fit has the true centre as its only global minimiser on concyclic points, the collinear shortcut is similarity invariant; "
            "matrix tied to fmatrix/edge code by exact rational correspondence, objective_f and the shortcut tied to Model/CircleFit.v; analytic-tangent oracle",
            "5/C02", "Coq theorems on a Gallina model + differential correspondence + analytic oracle"),
    "C05": ("kernel-checked sufficiency of slackened KKT conditions for non-negative least squares (all dimensions, all "
            "competitors) and soundness of an executable integer certificate checker; every captured solve is certified by "
            "evaluating that checker in Coq on the exact doubles; augmentation / stripping tied to the code by correspondence",
            "5/C05", "Coq theorem (KKT sufficiency) + verified certificate checker evaluated per solve"),
    "C11": ("theorems for every interface / ne / admissible index function: short interfaces unchanged, long ones get ne+1 points at strictly increasing positions retaining both ends, idempotence, ends survive, surviving vertices keep id and position, cycles become ordered subsequences; the binary64 index int(len/ne*i) is proved admissible on len<=1500, ne<=12 by kernel evaluation of PrimFloat; join_two_vertices: the merged vertex gets an id not in use and sits at the midpoint (the id can repeat a deleted one: root of known finding D7); generate_mesh/join_two_vertices model tied to the code by exact correspondence; junction / adjacency clauses by oracle (tested)", "5/C11",
            "Coq theorems on a Gallina model (incl. bit-exact float index) + differential correspondence"),
    "C08": ("theorems for every cycle / junction predicate / cell list: np.split loses nothing, every interface runs junction-to-junction through non-junctions, a cell's interfaces tile a rotation of its cycle, every mesh edge of a cell that has a junction lies in an interface of the frame (in one of the two directions), de-duplication keeps exactly one copy up to reversal, the three copies of the internal predicate agree and equal the stated characterisation; 'exactly one', exactly-two-cells and lookup-by-cells need mesh-level hypotheses and are evaluated by a graph-walk oracle (tested)", "5/C08",
            "Coq theorems on a Gallina model + differential correspondence + graph-walk oracle"),
    "C20": ("theorems over R for every polygon (reversal, shift, translation, scaling of area and perimeter, area = -shoelace, "
            "navigation, additivity under a cancellation hypothesis, neighbours); model tied to forsys/cell.py by exact "
            "(rational) correspondence on dyadic polygons and tissues", "5/C20",
            "Coq theorems on a Gallina model + differential correspondence"),
}
NOTE = ("Coq 8.16.1 kernel; standard-library axioms reported by Print Assumptions (real-number axioms, functional "
        "extensionality) listed per run in evidence.trusted_base; hand-written model tied to /repo by the correspondence "
        "harness; black boxes (circle fit, NNLS, eig, Qhull, OpenCV, PIL, float()) are oracles, see DESIGN 2.4 and 9")


def main():
    props = [json.loads(l) for l in open(os.path.join(VERIF, "properties.jsonl"))]
    checks, na = [], []
    for p in props:
        pid = p["id"]
        have = os.path.exists(os.path.join(VERIF, "harness", "props", f"{pid.lower()}.py")) and \
            os.path.exists(os.path.join(VERIF, "coq", "Props", f"{pid}.v")) and pid in LEVELS
        if have:
            text, ref, tech = LEVELS[pid]
            checks.append({
                "property_id": pid,
                "quick_cmd": f"./check {pid} --tier quick",
                "thorough_cmd": f"./check {pid} --tier thorough",
                "evidence_file": f"/verif/evidence/{pid}.json",
                "replay_cmd_template": f"./check {pid} --replay {{path}}",
                "engine": "coq-model+correspondence",
                "level_claimed": {"category": "proof", "text": text, "design_ref": ref},
                "level_note": NOTE,
                "technique": tech,
            })
        else:
            na.append({"property_id": pid, "reason": "not claimed in this commit: model/theorems/harness not built yet (work in progress, see DESIGN 7)"})
    man = {
        "version": 1,
        "setup_cmd": "cd /verif && ./check --setup",
        "hooks": {"guard": "FORSYS_VERIF", "enable": "FORSYS_VERIF=1 is exported by ./check; no source hook is needed: "
                  "solver inputs/outputs are captured by proxying forsys.fmatrix.scop / numpy.linalg.inv in the harness process",
                  "baseline_off_cmd": "cd /repo && /venv/bin/python -m pytest -ra -q -p no:cacheprovider --timeout=900 --continue-on-collection-errors",
                  "source_commits": [], "add_only": True},
        "engines": [{"name": "coq-model+correspondence", "path": "/verif/coq + /verif/harness",
                     "serves_properties": [c["property_id"] for c in checks],
                     "kind_free_text": "Gallina models and theorems (Coq 8.16.1), cases.v correspondence against /repo, forsys-independent property oracles"}],
        "checks": checks,
        "not_applicable": na,
        "notes": "fix: commits in /repo and known findings are listed in /verif/known_findings.json and DESIGN.md",
    }
    with open(os.path.join(VERIF, "MANIFEST.json"), "w") as f:
        json.dump(man, f, indent=1)
    print(f"{len(checks)} checks, {len(na)} not claimed")


if __name__ == "__main__":
    main()
