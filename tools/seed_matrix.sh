#!/bin/bash
# seed_matrix.sh [tier] : apply every seeded change to /repo in turn, run the check of the property it breaks, record the outcome
tier=${1:-quick}
cd "$(dirname "$0")/.."
for d in seeded/*/; do
  name=$(basename $d); pid=${name%%_*}
  out=$(tools/try_seed.sh $name $tier $pid 2>&1)
  if echo "$out" | grep -q "^VIOLATION property=$pid"; then res=caught; else res=MISSED; fi
  echo "$name $pid $res"
  /venv/bin/python - "$d/meta.json" "$pid" "$res" "$tier" <<'P'
import json,sys
p,pid,res,tier=sys.argv[1:5]
m=json.load(open(p))
m["caught_by"]=[c for c in m.get("caught_by",[]) if not c.startswith(pid+" ")]
m["caught_by"].append(f"{pid} ({tier} tier): {'VIOLATION reported' if res=='caught' else 'not detected'}")
json.dump(m,open(p,'w'),indent=1)
P
done
