#!/bin/bash
# try_seed.sh <seed dir name> <tier> <PID>...  : apply seeded patch to /repo, run checks, revert.
seed=$1; tier=$2; shift 2
cd /repo || exit 2
if ! git diff --quiet; then echo "/repo dirty, abort"; exit 2; fi
git apply /verif/seeded/$seed/patch.diff || { echo "patch does not apply"; exit 2; }
trap 'git -C /repo checkout -- . ' EXIT
for p in "$@"; do
  (cd /verif && VERIF_NO_EVIDENCE=1 ./check $p --tier $tier 2>&1 | grep -E "VIOLATION|KNOWN|tier=" | cut -c1-220)
done
